#!/usr/bin/env python3
# Regenerates MANIFEST.json from checks.json (claimed checks) + properties.jsonl (everything else not_applicable).
import json,subprocess
props=[json.loads(l) for l in open('/verif/properties.jsonl')]
claims=json.load(open('/verif/checks.json'))
commits=subprocess.run(['git','-C','/repo','log','--format=%h %s','--grep=^verif:'],capture_output=True,text=True).stdout.strip().split('\n')
commits=[c.split()[0] for c in commits if c]
m={"version":1,
 "setup_cmd":". /verif/env.sh && cd /verif/engine && go build -o /verif/bin/gowp ./cmd/gowp",
 "hooks":{"guard":"verif","enable":"go build -tags=verif (the guarded files zz_verif_contracts.go contain only comments: //@ contract blocks read by /verif/bin/gowp)","baseline_off_cmd":"cd /repo && . /verif/env.sh && go test -vet=off -count=1 ./...","source_commits":commits,"add_only":True},
 "engines":[{"name":"gowp","path":"/verif/engine","serves_properties":sorted(claims['checks'].keys()),"kind_free_text":"deductive verifier built here: VC generation (Boogie-style, loops cut at invariants, modular calls through contracts) over go/ssa of /repo's working tree; contracts are //@ comments in /repo/**/zz_verif_contracts.go; each obligation is one SMT-LIB query discharged by a portfolio of z3 5.1.0, z3 4.8.12 and cvc5 1.0.3; sat models are replayed on the real code with go test -overlay"}],
 "checks":[], "not_applicable":[], "notes":claims.get('notes','')}
for p in props:
    pid=p['id']
    if pid in claims['checks']:
        c=claims['checks'][pid]
        m['checks'].append({"property_id":pid,"quick_cmd":"bin/check %s --tier quick"%pid,"thorough_cmd":"bin/check %s --tier thorough"%pid,
          "evidence_file":"/verif/evidence/%s.json"%pid,"replay_cmd_template":"bin/check --replay {path}","engine":"gowp",
          "level_claimed":{"category":"proof","text":c['text'],"design_ref":c.get('design_ref','DESIGN.md section 6')},
          "level_note":c['note'],"technique":c.get('technique',"contract-based deductive verification: function contracts + loop invariants as //@ comments, VCs from go/ssa, discharged by z3/cvc5")})
    else:
        m['not_applicable'].append({"property_id":pid,"reason":claims['not_applicable'].get(pid,"not yet within the verifier's reach (build in progress; DESIGN.md section 9)")})
json.dump(m,open('/verif/MANIFEST.json','w'),indent=1)
print(len(m['checks']),'checks,',len(m['not_applicable']),'not applicable')
