#!/bin/bash
cd /verif
for id in $(python3 -c "import json;print(' '.join(c['property_id'] for c in json.load(open('MANIFEST.json'))['checks']))"); do /usr/bin/time -f "$id %es" bin/check $id --tier quick 2>&1 | grep -v "^KNOWN" | tail -2; done
