#!/bin/bash
# selftest/mkpatch.sh <name> <props> <file> <python-expr-old> <python-expr-new> [expect]
# creates selftest/mustfail/<name>.patch replacing one occurrence of old by new in /repo/<file>
name="$1"; props="$2"; file="$3"; old="$4"; new="$5"; expect="$6"
tmp=$(mktemp -d /tmp/mkpatch-XXXX); mkdir -p "$tmp/a/$(dirname $file)" "$tmp/b/$(dirname $file)"
cp "/repo/$file" "$tmp/a/$file"
python3 - "$tmp/a/$file" "$tmp/b/$file" "$old" "$new" <<'PY'
import sys
s=open(sys.argv[1]).read()
old=sys.argv[3].encode().decode('unicode_escape'); new=sys.argv[4].encode().decode('unicode_escape')
assert s.count(old)==1, "old text occurs %d times"%s.count(old)
open(sys.argv[2],'w').write(s.replace(old,new))
PY
[ $? = 0 ] || { rm -rf "$tmp"; exit 1; }
out="$(dirname "$0")/mustfail/$name.patch"
{ echo "# property: $props"; [ -n "$expect" ] && echo "# expect: $expect"; (cd "$tmp" && diff -u "a/$file" "b/$file"); } > "$out"
rm -rf "$tmp"; echo "wrote $out"
