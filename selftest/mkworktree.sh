#!/bin/bash
# selftest/mkworktree.sh <name>: scratch git worktree of /repo HEAD under /tmp/seedwt/<name> with the
# contract files removed (sub-agents must not see anything of the verification machinery).
set -e
d=/tmp/seedwt/$1
mkdir -p /tmp/seedwt
git -C /repo worktree add --detach -f "$d" HEAD >/dev/null 2>&1
find "$d" -name 'zz_verif_contracts.go' -delete
(cd "$d" && git update-index --assume-unchanged $(git ls-files -d) 2>/dev/null || true)
echo "$d"
