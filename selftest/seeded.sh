#!/bin/bash
# selftest/seeded.sh <seed-dir> [--no-confirm]
#   confirms a seeded change (suite passes with it, demo fails with it, demo passes without it)
#   in a scratch copy of /repo and runs the check of its property against the patched copy.
HERE="$(cd "$(dirname "$0")/.." && pwd)"
. "$HERE/env.sh"
D="$1"; CONFIRM=1; [ "$2" = "--no-confirm" ] && CONFIRM=0
meta="$D/meta.json"
prop=$(python3 -c "import json;print(json.load(open('$meta'))['property'])")
demo_path=$(python3 -c "import json;print(json.load(open('$meta'))['demo_path'])")
demo_cmd=$(python3 -c "import json;print(json.load(open('$meta'))['demo_cmd'])")
scratch=$(mktemp -d /tmp/gowp-seed-XXXXXX)
trap 'rm -rf "$scratch"' EXIT
mkdir -p "$scratch/repo" "$scratch/verif"
rsync -a --exclude .git /repo/ "$scratch/repo/"
ln -s "$HERE/spec" "$scratch/verif/spec"; cp "$HERE/known_findings.json" "$scratch/verif/"
name=$(basename "$D")
cd "$scratch/repo"
if [ $CONFIRM = 1 ]; then
  cp "$D/zz_demo_test.go" "$demo_path"
  if bash -c "$demo_cmd" >/dev/null 2>&1; then c_clean=pass; else c_clean=FAIL; fi
  rm -f "$demo_path"
fi
if ! patch -p1 -s --no-backup-if-mismatch < "$D/patch.diff" >/dev/null 2>&1; then echo "SEED $name: patch does not apply"; exit 0; fi
if [ $CONFIRM = 1 ]; then
  if go build ./... >/dev/null 2>&1 && go test -vet=off -count=1 ./... >/dev/null 2>&1; then c_suite=pass; else c_suite=FAIL; fi
  cp "$D/zz_demo_test.go" "$demo_path"
  if bash -c "$demo_cmd" >/dev/null 2>&1; then c_demo=PASS; else c_demo=fail; fi
  rm -f "$demo_path"
  echo "SEED $name: suite-with-change=$c_suite demo-with-change=$c_demo demo-without=$c_clean"
fi
for p in $prop ${EXTRA_PROPS}; do
  out=$(VERIF_REPO="$scratch/repo" VERIF_ROOT="$scratch/verif" "$HERE/bin/gowp" check "$p" --tier quick 2>&1); rc=$?
  n=$(echo "$out" | grep -c '^VIOLATION')
  if [ $rc -eq 1 ] && [ $n -gt 0 ]; then echo "SEED $name [$p]: DETECTED: $(echo "$out" | grep '^VIOLATION' | sed 's/.*obligation=//' | head -4 | tr '\n' ';')"; else echo "SEED $name [$p]: missed (rc=$rc)"; echo "$out" | tail -2 | sed 's/^/     /'; fi
done
