#!/bin/bash
# Must-fail / must-pass self-test of the checks.
#   selftest/run.sh [name-substring]
# Every patch under selftest/mustfail/*.patch starts with header lines
#   # property: C15[,C08]      (checks that must report a VIOLATION)
#   # expect: <substring of an obligation name that must be among the failures>  (optional)
# and is applied to a scratch copy of /repo's working tree (outside /repo and /verif, removed afterwards).
# Patches under selftest/mustpass are behaviour-preserving edits: the named checks must stay green.
HERE="$(cd "$(dirname "$0")/.." && pwd)"
. "$HERE/env.sh"
FILTER="$1"
fail=0
run_one() {
  local patch="$1" kind="$2"
  local name=$(basename "$patch" .patch)
  local props=$(grep -m1 '^# property:' "$patch" | sed 's/# property: *//; s/,/ /g')
  local expect=$(grep -m1 '^# expect:' "$patch" | sed 's/# expect: *//')
  local scratch=$(mktemp -d /tmp/gowp-selftest-XXXXXX)
  mkdir -p "$scratch/repo" "$scratch/verif"
  rsync -a --exclude .git /repo/ "$scratch/repo/"
  ln -s "$HERE/spec" "$scratch/verif/spec"
  cp "$HERE/known_findings.json" "$scratch/verif/" 2>/dev/null
  if ! (cd "$scratch/repo" && patch -p1 -s --no-backup-if-mismatch < "$patch" >/dev/null 2>&1); then
    echo "SELFTEST $name: patch does not apply"; fail=1; rm -rf "$scratch"; return
  fi
  if ! (cd "$scratch/repo" && go build ./... >/dev/null 2>&1); then
    echo "SELFTEST $name: patched tree does not compile"; fail=1; rm -rf "$scratch"; return
  fi
  for p in $props; do
    out=$(VERIF_REPO="$scratch/repo" VERIF_ROOT="$scratch/verif" "$HERE/bin/gowp" check "$p" --tier quick 2>&1)
    rc=$?
    viol=$(echo "$out" | grep -c '^VIOLATION')
    if [ "$kind" = mustfail ]; then
      if [ $rc -ne 1 ] || [ "$viol" -eq 0 ]; then
        echo "SELFTEST $name [$p]: NOT DETECTED (rc=$rc)"; fail=1
      elif [ -n "$expect" ] && ! echo "$out" | grep '^VIOLATION' | grep -q -- "$expect"; then
        echo "SELFTEST $name [$p]: detected, but not through the expected obligation ($expect):"; echo "$out" | grep '^VIOLATION' | sed 's/^/    /' | head -5
      else
        echo "SELFTEST $name [$p]: detected ($viol violation lines; $(echo "$out" | grep '^VIOLATION' | grep -vc no-failing-input-found) replayed)"
      fi
    else
      if [ $rc -ne 0 ] || [ "$viol" -ne 0 ]; then
        echo "SELFTEST $name [$p]: FALSE ALARM on a behaviour-preserving edit (rc=$rc)"; echo "$out" | grep '^VIOLATION' | sed 's/^/    /' | head -5; fail=1
      else
        echo "SELFTEST $name [$p]: still green"
      fi
    fi
  done
  rm -rf "$scratch"
}
for patch in "$HERE"/selftest/mustfail/*.patch; do
  [ -e "$patch" ] || continue
  case "$patch" in *"$FILTER"*) run_one "$patch" mustfail & ;; esac
  while [ $(jobs -r | wc -l) -ge 4 ]; do sleep 0.5; done
done
wait
for patch in "$HERE"/selftest/mustpass/*.patch; do
  [ -e "$patch" ] || continue
  case "$patch" in *"$FILTER"*) run_one "$patch" mustpass & ;; esac
  while [ $(jobs -r | wc -l) -ge 4 ]; do sleep 0.5; done
done
wait
exit 0
