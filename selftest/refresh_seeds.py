#!/usr/bin/env python3
# selftest/refresh_seeds.py [name-substring]: re-runs every seeded change against the checks recorded in its
# meta.json (no re-confirmation of the change itself) and rewrites checks_run.
import json,glob,os,subprocess,re,sys
flt=sys.argv[1] if len(sys.argv)>1 else ''
for d in sorted(glob.glob('/verif/seeded/*')):
    if flt not in d: continue
    mp=d+'/meta.json'; m=json.load(open(mp))
    props=[p for p in m.get('checks_run',{}) if p!=m['property']]
    env=dict(os.environ, EXTRA_PROPS=' '.join(props))
    out=subprocess.run(['/verif/selftest/seeded.sh',d,'--no-confirm'],capture_output=True,text=True,env=env).stdout
    res={}
    for l in out.split('\n'):
        mm=re.match(r'SEED \S+ \[(C\d+)\]: (DETECTED|missed)(.*)',l)
        if mm: res[mm.group(1)]={'detected':mm.group(2)=='DETECTED','violations':mm.group(3).strip(': ')}
    if res:
        m['checks_run']=res
        json.dump(m,open(mp,'w'),indent=1)
    print(os.path.basename(d), {k:v['detected'] for k,v in res.items()}, flush=True)
