#!/bin/bash
# selftest/keep_seed.sh <tmp-seed-dir> <props-to-check...>: confirm + run checks, store under /verif/seeded/<name>/
D="$1"; shift
name=$(basename "$D")
out=$(EXTRA_PROPS="$*" /verif/selftest/seeded.sh "$D" 2>&1)
echo "$out"
mkdir -p /verif/seeded/$name
cp "$D/patch.diff" "$D/zz_demo_test.go" /verif/seeded/$name/
python3 - "$D/meta.json" /verif/seeded/$name/meta.json "$out" <<'PY'
import json,sys,re
m=json.load(open(sys.argv[1])); out=sys.argv[3]
m['confirmed']={'suite_passes_with_change':'suite-with-change=pass' in out,'demo_fails_with_change':'demo-with-change=fail' in out,'demo_passes_without_change':'demo-without=pass' in out,
  'how':'selftest/seeded.sh: scratch copy of /repo (rsync, outside /repo and /verif), demo test copied to demo_path, demo_cmd run before and after `patch -p1 < patch.diff`, whole suite `go test -vet=off -count=1 ./...` run with the patch; scratch copy removed'}
res={}
for l in out.split('\n'):
    mm=re.match(r'SEED \S+ \[(C\d+)\]: (DETECTED|missed)(.*)',l)
    if mm: res[mm.group(1)]={'detected':mm.group(2)=='DETECTED','violations':mm.group(3).strip(': ')}
m['checks_run']=res
json.dump(m,open(sys.argv[2],'w'),indent=1)
PY
