#!/usr/bin/env python3
# selftest/mkpass.py <name> <props> <file> : reads OLD and NEW blocks from stdin separated by a line "=====";
# writes selftest/mustpass/<name>.patch (a behaviour-preserving edit of /repo/<file>).
import sys,os,subprocess,tempfile
name,props,file=sys.argv[1:4]
old,new=sys.stdin.read().split('\n=====\n')
new=new.rstrip('\n')+'\n' if new.endswith('\n') else new
s=open('/repo/'+file).read()
assert s.count(old)==1, "old text occurs %d times"%s.count(old)
d=tempfile.mkdtemp()
os.makedirs(d+'/a/'+os.path.dirname(file)); os.makedirs(d+'/b/'+os.path.dirname(file))
open(d+'/a/'+file,'w').write(s); open(d+'/b/'+file,'w').write(s.replace(old,new))
out=subprocess.run(['diff','-u','a/'+file,'b/'+file],cwd=d,capture_output=True,text=True).stdout
open('/verif/selftest/mustpass/%s.patch'%name,'w').write('# property: %s\n'%props+out)
subprocess.run(['rm','-rf',d]); print('wrote',name)
