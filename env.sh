# sourced by every script: offline Go 1.24 toolchain
export PATH=/root/go/pkg/mod/golang.org/toolchain@v0.0.1-go1.24.0.linux-amd64/bin:$PATH
export GOTOOLCHAIN=local GOFLAGS=-mod=mod GOPROXY=off GOSUMDB=off CGO_ENABLED=0
