; Design probe (session 1): C05 lemma for nodes, Parse(String(n)) = n on the documented domain
; (type is a /-path without '<', id without '<' '>'), over the extracted terms
;   String(n) = t ++ "<" ++ i ++ ">"      Parse: idx = indexof(raw,"<"); type = raw[:idx]; id = raw[idx+1:len-1]
; Expected: unsat with the domain assumption; sat (type containing "<") without it.
; Session-1 result: cvc5 --strings-exp proves it in 0.08 s; z3 4.8.12 and 5.1.0 time out on the unsat half.
(set-logic ALL)
(set-option :produce-models true)
(declare-const t String) (declare-const i String)
(define-fun s () String (str.++ t "<" i ">"))
(define-fun idx () Int (str.indexof s "<" 0))
(define-fun pt () String (str.substr s 0 idx))
(define-fun pid () String (str.substr s (+ idx 1) (- (- (str.len s) 1) (+ idx 1))))
(assert (str.prefixof "/" t))
(assert (not (str.contains i "<"))) (assert (not (str.contains i ">"))) (assert (not (= i "")))
(push)
(echo "with documented domain (no '<' in type)")
(assert (not (str.contains t "<")))
(assert (not (and (>= idx 0) (= pt t) (= pid i) (= (str.at s (- (str.len s) 1)) ">"))))
(check-sat)
(pop)
(push)
(echo "without it")
(assert (not (and (>= idx 0) (= pt t) (= pid i))))
(check-sat)
(get-value (t i))
(pop)
