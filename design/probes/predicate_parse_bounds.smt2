; Design probe (session 1): safety obligation of predicate.Parse, slice raw[idx+3:len(raw)-1].
; Expected: sat on the unchanged tree (defect D2), model is a concrete failing input.
(set-option :produce-models true)
(set-logic QF_SLIA)
(declare-const raw String)
(assert (not (= raw "")))
(assert (= (str.at raw 0) "\u{22}"))
(define-fun idx () Int (str.indexof raw "\u{22}@[" 0))
(assert (>= idx 0))
(assert (not (and (<= 0 (+ idx 3)) (<= (+ idx 3) (- (str.len raw) 1)) (<= (- (str.len raw) 1) (str.len raw)))))
(check-sat)
(get-value (raw))
