; Design probe (session 1): lemma C06/lemma.node-enc-injective over the encoding type ++ id.
; Expected: sat on the unchanged tree (defect D5), model is a colliding pair of nodes.
(set-option :produce-models true)
(set-logic QF_SLIA)
(declare-const t1 String)(declare-const i1 String)(declare-const t2 String)(declare-const i2 String)
(define-fun wfType ((t String)) Bool (and (str.prefixof "/" t) (not (str.suffixof "/" t)) (not (= t "")) (not (str.contains t " ")) (not (str.contains t "\u{9}")) (not (str.contains t "\u{a}")) (not (str.contains t "\u{d}"))))
(define-fun wfID ((i String)) Bool (and (not (= i "")) (not (str.contains i "<")) (not (str.contains i ">"))))
(assert (wfType t1))(assert (wfType t2))(assert (wfID i1))(assert (wfID i2))
(assert (= (str.++ t1 i1) (str.++ t2 i2)))
(assert (not (and (= t1 t2) (= i1 i2))))
(check-sat)
(get-value (t1 i1 t2 i2))
