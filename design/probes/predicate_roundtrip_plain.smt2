; Design probe (session 1): C05 lemma for immutable predicates with "plain" ids (no '"', no '\',
; printable), where strconv.Quote(x) = "\"" ++ x ++ "\"" is the only library fact assumed.
;   String(p) = Quote(id) ++ "@[]"     Parse: idx = indexof(raw, "\"@["); qid = raw[0:idx+1]; ta = raw[idx+3:len-1]
; Expected: sat without further assumptions (id starting with "@[" is mis-split: "@[x"@[] ),
;           unsat once ids starting with "@[" are excluded.
(set-logic ALL)
(set-option :produce-models true)
(declare-const x String)
(assert (not (= x ""))) (assert (not (str.contains x "\u{22}"))) (assert (not (str.contains x "\u{5c}")))
(define-fun raw () String (str.++ "\u{22}" x "\u{22}@[]"))
(define-fun idx () Int (str.indexof raw "\u{22}@[" 0))
(define-fun qid () String (str.substr raw 0 (+ idx 1)))
(define-fun ta () String (str.substr raw (+ idx 3) (- (- (str.len raw) 1) (+ idx 3))))
(define-fun good () Bool (and (>= idx 0) (= qid (str.++ "\u{22}" x "\u{22}")) (= ta "")))
(push)
(echo "all plain ids")
(assert (not good))
(check-sat)
(get-value (x))
(pop)
(push)
(echo "plain ids not starting with @[")
(assert (not (str.prefixof "@[" x)))
(assert (not good))
(check-sat)
(pop)
