package main

// Region analysis for map objects: a whole-program, unification-based (Steensgaard style) alias
// analysis. Two map values in different regions can never be the same object, so each region gets
// its own pair of heap arrays (domain, values) in the verification conditions and the solver does
// not have to reason about aliasing between, say, the buckets of idxS and those of idxP.
//
// Soundness: every flow of a map value that the analysis does not model precisely (boxing into an
// interface, channel send, closure capture, storing into a slice or array element, dynamic calls,
// parameters of functions that let the map escape) unifies the value with the default region of its
// static type, which is shared by everything else that was treated the same way.

import (
	"fmt"
	"go/types"
	"sort"
	"strings"

	"golang.org/x/tools/go/ssa"
)

type rnode struct {
	parent *rnode
	elem   *rnode
	id     int
	heap   bool // field, global or default region (visible outside the function)
	desc   string
	pkgs   map[string]bool // packages whose code handles values of this region
	declPkg string         // default region of a named map type: the package declaring the type
}

type regions struct {
	e        *Engine
	n        int
	val      map[ssa.Value]*rnode
	field    map[string]*rnode
	global   map[*ssa.Global]*rnode
	deflt    map[string]*rnode
	ret      map[string]*rnode // fnKey#i
	escapes  map[*ssa.Parameter]bool
	changed  bool
	byID     map[int]*rnode
	curPkg   string
}

func (r *regions) mk(desc string, heap bool) *rnode {
	r.n++
	n := &rnode{id: r.n, heap: heap, desc: desc}
	if r.byID == nil {
		r.byID = map[int]*rnode{}
	}
	r.byID[n.id] = n
	return n
}

func (r *regions) find(n *rnode) *rnode {
	for n.parent != nil {
		if n.parent.parent != nil {
			n.parent = n.parent.parent
		}
		n = n.parent
	}
	return n
}

func (r *regions) union(a, b *rnode) {
	a, b = r.find(a), r.find(b)
	if a == b {
		return
	}
	if b.id < a.id {
		a, b = b, a
	}
	// a survives
	b.parent = a
	a.heap = a.heap || b.heap
	if a.pkgs == nil {
		a.pkgs = map[string]bool{}
	}
	for k := range b.pkgs {
		a.pkgs[k] = true
	}
	ae, be := a.elem, b.elem
	if ae == nil {
		a.elem = be
	} else if be != nil {
		r.union(ae, be)
	}
}

func (r *regions) elemOf(n *rnode) *rnode {
	n = r.find(n)
	if n.elem == nil {
		n.elem = r.mk(n.desc+"[]", n.heap)
	}
	return r.find(n.elem)
}

func isMapType(t types.Type) bool {
	_, ok := t.Underlying().(*types.Map)
	return ok
}

func (r *regions) defaultNode(t types.Type) *rnode {
	t = unwrapT(t)
	k := typeKey(t)
	if n, ok := r.deflt[k]; ok {
		return n
	}
	n := r.mk("T:"+shortType(t), true)
	if nt, ok := t.(*types.Named); ok && nt.Obj().Pkg() != nil {
		n.declPkg = nt.Obj().Pkg().Path()
	}
	r.deflt[k] = n
	// the elements of a default region of map-of-map type are the default region of the element type
	if mt, ok := t.Underlying().(*types.Map); ok && isMapType(mt.Elem()) {
		n.elem = r.defaultNode(mt.Elem())
	}
	return n
}

func (r *regions) fieldNode(st types.Type, f *types.Var) *rnode {
	k := typeKey(st) + "." + f.Name()
	if n, ok := r.field[k]; ok {
		return n
	}
	n := r.mk("F:"+shortType(st)+"."+f.Name(), true)
	r.field[k] = n
	return n
}

func (r *regions) node(v ssa.Value) *rnode {
	if n, ok := r.val[v]; ok {
		return n
	}
	var n *rnode
	switch x := v.(type) {
	case *ssa.Const:
		n = r.mk("nil", false)
	case *ssa.Parameter:
		n = r.mk("param:"+x.Parent().Name()+"."+x.Name(), false)
	case *ssa.FreeVar:
		n = r.defaultNode(ptrOrSelf(x.Type()))
	default:
		n = r.mk(fmt.Sprintf("%T:%s", v, v.Name()), false)
	}
	r.val[v] = n
	if r.curPkg != "" {
		if n.pkgs == nil {
			n.pkgs = map[string]bool{}
		}
		n.pkgs[r.curPkg] = true
	}
	return n
}

// regionOnlyIn: values of the region occur only in code of the given package.
func (e *Engine) regionOnlyIn(region, pkg string) bool {
	var id int
	fmt.Sscanf(region, "R%d", &id)
	n := e.reg.byID[id]
	if n == nil {
		return false
	}
	orig := n
	n = e.reg.find(n)
	if orig.declPkg == pkg && n == orig && len(n.pkgs) == 0 {
		// default region of a map type declared in pkg that never got mixed with anything else: only code
		// that can name the type can reach such maps
		return true
	}
	if len(n.pkgs) == 0 {
		return false
	}
	for k := range n.pkgs {
		if k != pkg {
			return false
		}
	}
	return true
}

func ptrOrSelf(t types.Type) types.Type {
	if p, ok := t.Underlying().(*types.Pointer); ok {
		return p.Elem()
	}
	return t
}

// locNode: the region of the map stored at address p (p has type *map...).
func (r *regions) locNode(p ssa.Value) *rnode {
	switch a := p.(type) {
	case *ssa.FieldAddr:
		stT := ptrElem(a.X.Type())
		f := stT.Underlying().(*types.Struct).Field(a.Field)
		return r.fieldNode(stT, f)
	case *ssa.Global:
		if n, ok := r.global[a]; ok {
			return n
		}
		n := r.mk("G:"+a.Name(), true)
		r.global[a] = n
		return n
	case *ssa.Alloc:
		return r.node(a) // the cell's content
	}
	return r.defaultNode(ptrElem(p.Type()))
}

func (r *regions) retNode(f *ssa.Function, i int) *rnode {
	k := fmt.Sprintf("%s#%d", fnKey(f), i)
	if n, ok := r.ret[k]; ok {
		return n
	}
	n := r.mk("ret:"+shortKey(fnKey(f))+"#"+fmt.Sprint(i), false)
	r.ret[k] = n
	return n
}

func (r *regions) escape(v ssa.Value) {
	if isMapType(v.Type()) {
		r.union(r.node(v), r.defaultNode(v.Type()))
	}
}

func (e *Engine) computeRegions() {
	r := &regions{e: e, val: map[ssa.Value]*rnode{}, field: map[string]*rnode{}, global: map[*ssa.Global]*rnode{}, deflt: map[string]*rnode{}, ret: map[string]*rnode{}, escapes: map[*ssa.Parameter]bool{}}
	e.reg = r
	var fns []*ssa.Function
	for f := range e.allFuncs {
		if f.Pkg != nil && strings.HasPrefix(f.Pkg.Pkg.Path(), "github.com/google/badwolf") && f.Blocks != nil {
			fns = append(fns, f)
		}
	}
	sort.Slice(fns, func(i, j int) bool { return fnKey(fns[i]) < fnKey(fns[j]) })
	for round := 0; round < 8; round++ {
		for _, f := range fns {
			r.analyze(f)
		}
		// escaping parameters: unified with a heap region, a result, or another parameter
		changed := false
		for _, f := range fns {
			seen := map[*rnode]*ssa.Parameter{}
			for _, p := range f.Params {
				if !isMapType(p.Type()) || r.escapes[p] {
					continue
				}
				n := r.find(r.node(p))
				esc := n.heap
				if q, dup := seen[n]; dup {
					esc = true
					if !r.escapes[q] {
						r.escapes[q] = true
						changed = true
					}
				}
				seen[n] = p
				for i := 0; i < f.Signature.Results().Len(); i++ {
					if isMapType(f.Signature.Results().At(i).Type()) && r.find(r.retNode(f, i)) == n {
						esc = true
					}
				}
				if esc {
					r.escapes[p] = true
					changed = true
				}
			}
		}
		if !changed {
			break
		}
	}
}

func (r *regions) analyze(f *ssa.Function) {
	if f.Pkg != nil {
		r.curPkg = f.Pkg.Pkg.Path()
	}
	for _, p := range f.Params {
		if isMapType(p.Type()) {
			n := r.find(r.node(p))
			if n.pkgs == nil {
				n.pkgs = map[string]bool{}
			}
			n.pkgs[r.curPkg] = true
		}
	}
	for _, b := range f.Blocks {
		for _, in := range b.Instrs {
			switch i := in.(type) {
			case *ssa.MakeMap:
				r.node(i)
			case *ssa.Phi:
				if isMapType(i.Type()) {
					for _, e := range i.Edges {
						r.union(r.node(i), r.node(e))
					}
				}
			case *ssa.Lookup:
				if isMapType(i.X.Type()) {
					t := i.Type()
					if i.CommaOk {
						t = t.(*types.Tuple).At(0).Type()
					}
					if isMapType(t) {
						r.union(r.node(i), r.elemOf(r.node(i.X)))
					}
				}
			case *ssa.Extract:
				if !isMapType(i.Type()) {
					continue
				}
				switch t := i.Tuple.(type) {
				case *ssa.Lookup:
					r.union(r.node(i), r.node(t))
				case *ssa.Next:
					if rg, ok := t.Iter.(*ssa.Range); ok && isMapType(rg.X.Type()) && i.Index == 2 {
						r.union(r.node(i), r.elemOf(r.node(rg.X)))
					} else {
						r.escape(i)
					}
				case *ssa.Call:
					r.union(r.node(i), r.callResult(t, i.Index))
				default:
					r.escape(i)
				}
			case *ssa.MapUpdate:
				if isMapType(i.Value.Type()) {
					r.union(r.elemOf(r.node(i.Map)), r.node(i.Value))
				}
			case *ssa.UnOp:
				if i.Op.String() == "*" && isMapType(i.Type()) {
					r.union(r.node(i), r.locNode(i.X))
				}
				if i.Op.String() == "<-" {
					r.escape(i)
				}
			case *ssa.Store:
				if isMapType(i.Val.Type()) {
					r.union(r.locNode(i.Addr), r.node(i.Val))
				}
			case *ssa.Return:
				for k, v := range i.Results {
					if isMapType(v.Type()) {
						r.union(r.retNode(f, k), r.node(v))
					}
				}
			case *ssa.ChangeType:
				if isMapType(i.Type()) {
					r.union(r.node(i), r.node(i.X))
				}
			case *ssa.MakeInterface:
				r.escape(i.X)
			case *ssa.Send:
				r.escape(i.X)
			case *ssa.MakeClosure:
				for _, bnd := range i.Bindings {
					if al, ok := bnd.(*ssa.Alloc); ok && isMapType(ptrElem(al.Type())) {
						r.union(r.node(al), r.defaultNode(ptrElem(al.Type())))
					}
					r.escape(bnd)
				}
			case *ssa.TypeAssert:
				if isMapType(i.Type()) {
					r.escape(i)
				}
			case *ssa.Call:
				r.call(&i.Call, i)
			case *ssa.Go:
				r.call(&i.Call, nil)
			case *ssa.Defer:
				r.call(&i.Call, nil)
			case *ssa.Field, *ssa.Index:
				if v, ok := in.(ssa.Value); ok && isMapType(v.Type()) {
					r.escape(v)
				}
			}
		}
	}
}

func (r *regions) callResult(c *ssa.Call, idx int) *rnode {
	if callee := c.Call.StaticCallee(); callee != nil && callee.Blocks != nil && !c.Call.IsInvoke() {
		return r.retNode(callee, idx)
	}
	sig := c.Call.Signature()
	return r.defaultNode(sig.Results().At(idx).Type())
}

func (r *regions) call(c *ssa.CallCommon, res *ssa.Call) {
	callee := c.StaticCallee()
	known := callee != nil && callee.Blocks != nil && !c.IsInvoke() && callee.Pkg != nil && strings.HasPrefix(callee.Pkg.Pkg.Path(), "github.com/google/badwolf")
	if _, isBuiltin := c.Value.(*ssa.Builtin); isBuiltin {
		return
	}
	for k, a := range c.Args {
		if !isMapType(a.Type()) {
			continue
		}
		if known {
			if k < len(callee.Params) && r.escapes[callee.Params[k]] {
				r.union(r.node(a), r.node(callee.Params[k]))
			}
			continue
		}
		if callee != nil && callee.Pkg != nil && !strings.HasPrefix(callee.Pkg.Pkg.Path(), "github.com/google/badwolf") {
			// library function taking a map: none in the verified code keeps it
			continue
		}
		r.escape(a)
	}
	if res != nil && isMapType(res.Type()) {
		if known {
			r.union(r.node(res), r.retNode(callee, 0))
		} else {
			r.escape(res)
		}
	}
}

// regionOf: name of the region of a map-typed SSA value.
func (e *Engine) regionOf(v ssa.Value) string {
	if e.reg == nil || v == nil || !isMapType(v.Type()) {
		return ""
	}
	return fmt.Sprintf("R%d", e.reg.find(e.reg.node(v)).id)
}

func (e *Engine) regionOfField(st types.Type, f *types.Var) string {
	if e.reg == nil {
		return ""
	}
	return fmt.Sprintf("R%d", e.reg.find(e.reg.fieldNode(st, f)).id)
}

func (e *Engine) regionElem(region string) string {
	if e.reg == nil || region == "" {
		return ""
	}
	var id int
	fmt.Sscanf(region, "R%d", &id)
	if n := e.reg.byID[id]; n != nil {
		return fmt.Sprintf("R%d", e.reg.elemOf(n).id)
	}
	return ""
}

func (e *Engine) regionDefault(t types.Type) string {
	if e.reg == nil {
		return ""
	}
	return fmt.Sprintf("R%d", e.reg.find(e.reg.defaultNode(t)).id)
}

// regionDesc: human-readable description of a region (for evidence/debugging).
func (e *Engine) regionDesc(region string) string {
	var id int
	fmt.Sscanf(region, "R%d", &id)
	if n := e.reg.byID[id]; n != nil {
		return n.desc
	}
	return region
}
