package main

// C18 (d): the meaning extracted from a statement does not depend on statements parsed earlier.
// Decided as a frame condition on the parser hooks of package semantic: a hook closure that never
// writes to state it captured (nor to package-level variables) cannot carry anything from one
// statement to the next. The write set is computed syntactically from the SSA of each closure:
// stores to captured variables, and stores / map updates / appends through values loaded from them.

import (
	"fmt"
	"go/token"
	"go/types"
	"sort"
	"strings"

	"golang.org/x/tools/go/ssa"
)

func isHookType(t types.Type) bool {
	n, ok := t.(*types.Named)
	if !ok || n.Obj().Pkg() == nil || n.Obj().Pkg().Path() != "github.com/google/badwolf/bql/semantic" {
		return false
	}
	return n.Obj().Name() == "ClauseHook" || n.Obj().Name() == "ElementHook"
}

// capturedWrites: descriptions of the writes of closure f to captured or global state.
func capturedWrites(f *ssa.Function) []string {
	var out []string
	// values derived from free variables: the free variable itself (a pointer to the captured
	// variable), loads from it, and anything reached from those by field/index addressing
	derived := map[ssa.Value]string{}
	for _, fv := range f.FreeVars {
		derived[fv] = fv.Name()
	}
	for changed := true; changed; {
		changed = false
		for _, b := range f.Blocks {
			for _, in := range b.Instrs {
				v, ok := in.(ssa.Value)
				if !ok {
					continue
				}
				if _, done := derived[v]; done {
					continue
				}
				var src ssa.Value
				switch i := in.(type) {
				case *ssa.UnOp:
					if i.Op == token.MUL {
						src = i.X
					}
				case *ssa.FieldAddr:
					src = i.X
				case *ssa.IndexAddr:
					src = i.X
				case *ssa.Field:
					src = i.X
				case *ssa.Lookup:
					src = i.X
				case *ssa.Slice:
					src = i.X
				case *ssa.Phi:
					for _, e := range i.Edges {
						if _, ok := derived[e]; ok {
							src = e
						}
					}
				case *ssa.ChangeType:
					src = i.X
				}
				if src != nil {
					if n, ok := derived[src]; ok {
						derived[v] = n
						changed = true
					}
				}
			}
		}
	}
	for _, b := range f.Blocks {
		for _, in := range b.Instrs {
			switch i := in.(type) {
			case *ssa.Store:
				if n, ok := derived[i.Addr]; ok {
					out = append(out, "assigns captured "+n)
				}
				if g, ok := i.Addr.(*ssa.Global); ok {
					out = append(out, "assigns package variable "+g.Name())
				}
			case *ssa.MapUpdate:
				if n, ok := derived[i.Map]; ok {
					out = append(out, "updates captured map "+n)
				}
			case *ssa.Call:
				if bi, ok := i.Call.Value.(*ssa.Builtin); ok && bi.Name() == "delete" {
					if n, ok := derived[i.Call.Args[0]]; ok {
						out = append(out, "deletes from captured map "+n)
					}
				}
			}
		}
	}
	sort.Strings(out)
	var u []string
	for i, x := range out {
		if i == 0 || x != out[i-1] {
			u = append(u, x)
		}
	}
	return u
}

func (e *Engine) c18Obligations(id string) []*Oblig {
	var out []*Oblig
	fc := e.newFnCtx("semantic.hooks", nil, nil)
	fc.short = "semantic"
	fc.props = []string{id}
	add := func(name string, ok bool, src string, pos token.Pos) {
		goal := "true"
		if !ok {
			goal = "false"
		}
		o := fc.oblig("frame", name, goal, "true", pos, []string{id})
		o.Src = src
		out = append(out, o)
	}
	sp := e.ssaPkgs["github.com/google/badwolf/bql/semantic"]
	if sp == nil {
		add("hooks.package-present", false, "package bql/semantic not found", 0)
		return out
	}
	// semantic must not import grammar (basis of the function-type contracts of the parser)
	importsGrammar := false
	if p := e.pkgs["github.com/google/badwolf/bql/semantic"]; p != nil {
		for path := range p.Imports {
			if path == "github.com/google/badwolf/bql/grammar" {
				importsGrammar = true
			}
		}
	}
	add("hooks.semantic-cannot-name-grammar", !importsGrammar, "package bql/semantic does not import package bql/grammar (parser hooks cannot reach the parser's objects)", 0)
	var fns []*ssa.Function
	for f := range e.allFuncs {
		if f.Pkg == sp && f.Blocks != nil {
			fns = append(fns, f)
		}
	}
	sort.Slice(fns, func(i, j int) bool { return fnKey(fns[i]) < fnKey(fns[j]) })
	nClosures := 0
	for _, f := range fns {
		// closures (at any nesting depth) whose type is a hook type, or that are nested in such a closure
		if f.Parent() == nil {
			// constructor: must return a closure created by this call (or by the constructor it calls)
			if f.Signature.Results().Len() == 1 && isHookType(f.Signature.Results().At(0).Type()) && f.Signature.Recv() == nil {
				fresh := true
				for _, b := range f.Blocks {
					for _, in := range b.Instrs {
						if r, ok := in.(*ssa.Return); ok {
							// the returned hook must not come from a package-level variable
							var fromGlobal func(v ssa.Value, depth int) bool
							fromGlobal = func(v ssa.Value, depth int) bool {
								if depth > 6 {
									return false
								}
								switch x := v.(type) {
								case *ssa.Global:
									return true
								case *ssa.UnOp:
									return fromGlobal(x.X, depth+1)
								case *ssa.Phi:
									for _, e := range x.Edges {
										if fromGlobal(e, depth+1) {
											return true
										}
									}
								case *ssa.ChangeType:
									return fromGlobal(x.X, depth+1)
								}
								return false
							}
							if fromGlobal(r.Results[0], 0) {
								fresh = false
							}
						}
					}
				}
				add("hooks.fresh-closure["+f.Name()+"]", fresh, "constructor "+f.Name()+" returns a closure created by this call, not a shared one", f.Pos())
			}
			continue
		}
		// is this closure (or an enclosing one) a hook?
		isHook := false
		for g := f; g != nil; g = g.Parent() {
			if g.Parent() == nil {
				// top-level constructor: does it return a hook?
				for i := 0; i < g.Signature.Results().Len(); i++ {
					if isHookType(g.Signature.Results().At(i).Type()) {
						isHook = true
					}
				}
			}
		}
		if !isHook {
			continue
		}
		nClosures++
		w := capturedWrites(f)
		name := strings.TrimPrefix(fnKey(f), "github.com/google/badwolf/bql/semantic.")
		src := "hook closure " + name + " writes no captured or package-level state"
		if len(w) > 0 {
			src = "hook closure " + name + " keeps state between calls: " + strings.Join(w, "; ")
		}
		oname := "hooks.stateless[" + name + "]"
		if len(w) > 0 {
			// the written variables are part of the name: a listed known finding covers exactly this write set
			var vars []string
			for _, x := range w {
				parts := strings.Fields(x)
				vars = append(vars, parts[len(parts)-1])
			}
			sort.Strings(vars)
			oname += "{" + strings.Join(uniq(vars), ",") + "}"
		}
		add(oname, len(w) == 0, src, f.Pos())
	}
	add("hooks.closures-found", nClosures > 0, fmt.Sprintf("%d hook closures analysed", nClosures), 0)
	return out
}
