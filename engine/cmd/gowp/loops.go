package main

import (
	"fmt"
	"os"
	"go/token"
	"go/types"
	"sort"
	"strconv"
	"strings"

	"golang.org/x/tools/go/ssa"
)

// loopTouched: heap arrays possibly written inside the loop (syntactic over-approximation).
func (fr *frame) loopTouched(li *loopInfo) (names map[string]bool, all bool) {
	fc := fr.fc
	names = map[string]bool{}
	var visitFn func(f *ssa.Function, blocks map[*ssa.BasicBlock]bool, depth int)
	visitCall := func(c *ssa.CallCommon, depth int) {
		names["Alloc"] = true
		if c.IsInvoke() {
			key := methodKey(c.Method)
			if ct := fc.e.specs.Funcs[key]; ct != nil {
				fr.contractTouches(ct, names, &all)
				return
			}
			if libPure[key] {
				return
			}
			// no contract on the interface: the union over the implementations (as ifaceDispatch does)
			if iface, ok := c.Value.Type().Underlying().(*types.Interface); ok {
				n := 0
				for k, f := range fc.e.funcs {
					if f.Name() != c.Method.Name() || f.Signature.Recv() == nil || f.Pkg == nil || f.Synthetic != "" {
						continue
					}
					if !strings.HasPrefix(f.Pkg.Pkg.Path(), "github.com/google/badwolf") || !types.Implements(f.Signature.Recv().Type(), iface) {
						continue
					}
					ct := fc.e.specs.Funcs[k]
					if ct == nil {
						all = true
						return
					}
					fr.contractTouches(ct, names, &all)
					n++
				}
				if n > 0 {
					return
				}
			}
			if os.Getenv("GOWP_DEBUG_TOUCH") != "" {
				fmt.Fprintln(os.Stderr, "loopTouched: invoke without contract:", key)
			}
			all = true
			return
		}
		switch callee := c.Value.(type) {
		case *ssa.Builtin:
			switch callee.Name() {
			case "delete":
				mt := c.Args[0].Type().Underlying().(*types.Map)
				dn, vn, _, _ := fc.mapArrs(mt, fc.e.regionOf(c.Args[0]))
				names[dn], names[vn] = true, true
			case "close":
				names["CC"] = true
			case "copy":
				all = true
			}
			return
		case *ssa.Function:
			key := fnKey(callee)
			if _, ok := libModels[key]; ok {
				for _, n := range libTouches[key] {
					names[n] = true
				}
				if key == "golang.org/x/sync/errgroup.(*Group).Go" && len(c.Args) == 2 {
					// the function handed to the group runs here (fork/join model)
					names["EG$err"] = true
					var f *ssa.Function
					if mc, ok := c.Args[1].(*ssa.MakeClosure); ok {
						f, _ = mc.Fn.(*ssa.Function)
					} else if fn, ok := c.Args[1].(*ssa.Function); ok {
						f = fn
					} else {
						f = staticClosureOf(c.Args[1])
					}
					if f == nil || depth >= 3 {
						all = true
						return
					}
					bl := map[*ssa.BasicBlock]bool{}
					for _, b := range f.Blocks {
						bl[b] = true
					}
					visitFn(f, bl, depth+1)
				}
				return
			}
			if ct := fc.e.specs.Funcs[key]; ct != nil {
				fr.contractTouches(ct, names, &all)
				return
			}
			if libPure[key] {
				return
			}
			if callee.Blocks != nil && depth < 3 && (callee.Parent() != nil || isTrivial(callee) || (strings.HasPrefix(key, "github.com/google/badwolf") && smallHelper(callee))) {
				bl := map[*ssa.BasicBlock]bool{}
				for _, b := range callee.Blocks {
					bl[b] = true
				}
				visitFn(callee, bl, depth+1)
				return
			}
			if os.Getenv("GOWP_DEBUG_TOUCH") != "" {
				fmt.Fprintln(os.Stderr, "loopTouched: call without contract:", key)
			}
			all = true
		case *ssa.MakeClosure:
			f := callee.Fn.(*ssa.Function)
			bl := map[*ssa.BasicBlock]bool{}
			for _, b := range f.Blocks {
				bl[b] = true
			}
			visitFn(f, bl, depth+1)
		default:
			if cl, ok := fr.vals[c.Value].(*Closure); ok && depth < 3 {
				bl := map[*ssa.BasicBlock]bool{}
				for _, b := range cl.Fn.Blocks {
					bl[b] = true
				}
				visitFn(cl.Fn, bl, depth+1)
				return
			}
			// a closure kept in a local variable that is written once
			if f := staticClosureOf(c.Value); f != nil && depth < 3 {
				bl := map[*ssa.BasicBlock]bool{}
				for _, b := range f.Blocks {
					bl[b] = true
				}
				visitFn(f, bl, depth+1)
				return
			}
			// dynamic call: union over candidates
			cands := fc.e.dynCandidates(c.Value.Type())
			if len(cands) == 0 {
				handled := false
				for _, ft := range fc.e.specs.FuncTypes {
					t, _, err := fc.e.resolveType(ft.Type, ft.Pkg)
					if err == nil && t != nil && types.Identical(t, c.Value.Type()) {
						for k := 0; k+1 < len(ft.Preserves); k++ {
							if ft.Preserves[k] == "package" {
								names["*outside:"+ft.Preserves[k+1]] = true
								handled = true
							}
						}
					}
				}
				if !handled {
					all = true
				}
			}
			for _, f := range cands {
				if ct := fc.e.specs.Funcs[fnKey(f)]; ct != nil {
					fr.contractTouches(ct, names, &all)
				} else {
					all = true
				}
			}
		}
	}
	visitFn = func(f *ssa.Function, blocks map[*ssa.BasicBlock]bool, depth int) {
		for b := range blocks {
			for _, in := range b.Instrs {
				switch i := in.(type) {
				case *ssa.Store:
					switch a := i.Addr.(type) {
					case *ssa.FieldAddr:
						stT := ptrElem(a.X.Type())
						f := stT.Underlying().(*types.Struct).Field(a.Field)
						names[fieldArrName(stT, f.Name())] = true
					case *ssa.IndexAddr:
						// local array cell or slice element (unsupported elsewhere)
					default:
						elemT := ptrElem(i.Addr.Type())
						if elemT == nil {
							all = true
						} else if st, ok := elemT.Underlying().(*types.Struct); ok && !isTimeType(elemT) {
							for k := 0; k < st.NumFields(); k++ {
								names[fieldArrName(elemT, st.Field(k).Name())] = true
							}
						} else {
							names[derefArrName(elemT)] = true
						}
					}
				case *ssa.MapUpdate:
					mt := i.Map.Type().Underlying().(*types.Map)
					dn, vn, _, _ := fc.mapArrs(mt, fc.e.regionOf(i.Map))
					names[dn], names[vn] = true, true
				case *ssa.UnOp:
					if i.Op == token.ARROW {
						names["CR"] = true
					}
				case *ssa.Select:
					for _, ss := range i.States {
						if ss.Dir == types.SendOnly {
							names["CL"] = true
							names["CO$"+sanitize(fc.e.sortOf(ss.Send.Type()))] = true
						}
					}
				case *ssa.Send:
					names["CL"] = true
					names["CO$"+sanitize(fc.e.sortOf(i.X.Type()))] = true
				case *ssa.Alloc, *ssa.MakeMap, *ssa.MakeChan:
					names["Alloc"] = true
					if mm, ok := in.(*ssa.MakeMap); ok {
						dn, _, _, _ := fc.mapArrs(mm.Type().Underlying().(*types.Map), fc.e.regionOf(mm))
						names[dn] = true
					}
					if al, ok := in.(*ssa.Alloc); ok {
						elemT := ptrElem(al.Type())
						if st, ok := elemT.Underlying().(*types.Struct); ok && !isTimeType(elemT) {
							for k := 0; k < st.NumFields(); k++ {
								if !isSyncType(st.Field(k).Type()) {
									names[fieldArrName(elemT, st.Field(k).Name())] = true
								}
							}
						} else if _, isArr := elemT.Underlying().(*types.Array); !isArr {
							names[derefArrName(elemT)] = true
						}
					}
					if _, ok := in.(*ssa.MakeChan); ok {
						names["CL"], names["CC"], names["CR"] = true, true, true
					}
				case *ssa.Next:
					if r, ok := i.Iter.(*ssa.Range); ok {
						names["VIS$"+r.Name()] = true
						names["SPOS$"+r.Name()] = true
					}
				case *ssa.Range:
					names["VIS$"+i.Name()] = true
					names["SPOS$"+i.Name()] = true
				case *ssa.Call:
					visitCall(&i.Call, depth)
				case *ssa.Defer:
					visitCall(&i.Call, depth)
				case *ssa.Go:
					if fc.c != nil && fc.c.Opts["go-sequential"] != "" {
						visitCall(&i.Call, depth)
					} else {
						all = true
					}
				}
			}
		}
	}
	visitFn(fr.fn, li.blocks, 0)
	return
}

func isTrivial(f *ssa.Function) bool {
	if len(f.Blocks) != 1 {
		return false
	}
	for _, in := range f.Blocks[0].Instrs {
		switch i := in.(type) {
		case *ssa.FieldAddr, *ssa.Field, *ssa.UnOp, *ssa.Return, *ssa.DebugRef, *ssa.ChangeType, *ssa.Convert, *ssa.BinOp, *ssa.MakeInterface:
		case *ssa.Alloc:
			// a value receiver or parameter spilled to a local cell
			if _, isArr := ptrElem(i.Type()).Underlying().(*types.Array); isArr {
				return false
			}
		case *ssa.Store:
			al, ok := i.Addr.(*ssa.Alloc)
			if !ok || al.Parent() != f {
				return false
			}
			if _, isParam := i.Val.(*ssa.Parameter); !isParam {
				return false
			}
		default:
			return false
		}
	}
	return true
}

func (fr *frame) contractTouches(ct *FuncContract, names map[string]bool, all *bool) {
	fc := fr.fc
	if po := ct.Opts["modifies-outside"]; po != "" {
		names["*outside:"+po] = true
	}
	if ct.Opts["modifies-everything"] != "" {
		*all = true
		return
	}
	for _, n := range ct.ModAll {
		for _, hn := range fc.resolveHeapNames(n, ct.Pkg) {
			names[hn] = true
		}
	}
	if !ct.Pure {
		names["Alloc"] = true
	}
	for _, m := range ct.Modifies {
		for _, n := range fc.modExprArrays(m, ct) {
			names[n] = true
		}
	}
}

func (fr *frame) loopHeader(li *loopInfo, b *ssa.BasicBlock, st *State) *State {
	fc := fr.fc
	reach := fr.reach[b]
	lname := "loop" + strconv.Itoa(li.ordinal)
	// entry values of the phis
	entry := map[*ssa.Phi]Term{}
	for _, in := range b.Instrs {
		phi, ok := in.(*ssa.Phi)
		if !ok {
			break
		}
		sortName := fc.e.sortOf(phi.Type())
		v := fc.fresh("phi_in_"+phi.Name(), sortName)
		for i, p := range b.Preds {
			if fr.isBackEdge(p, b) {
				continue
			}
			c, ok := fr.edges[[2]int{p.Index, b.Index}]
			if !ok {
				continue
			}
			fc.factIf(c, eq(v.S, fr.term(phi.Edges[i]).S))
		}
		entry[phi] = v
	}
	spec := li.spec
	if spec == nil {
		spec = &LoopSpec{}
	}
	// 1. invariants hold on entry
	env := fr.loopEnv(li, st, entry)
	env.entry = st
	for idx, cl := range spec.Invariants {
		name := cl.Name
		if name == "" {
			name = strconv.Itoa(idx)
		}
		t, err := env.evalBool(cl.Expr)
		if err != nil {
			fc.unsupported("%s invariant %s: %v", lname, name, err)
			continue
		}
		o := fc.oblig("invariant", lname+".inv."+name+".entry", t.S, reach, b.Instrs[0].Pos(), nil)
		o.Src = cl.Src
	}
	// 2. havoc
	touched, all := fr.loopTouched(li)
	pre := st.clone()
	li.entrySt = pre
	if all {
		fc.nfresh++
		st.epoch = fc.nfresh
		fc.e.warn("%s: %s contains a call without contract; every heap array is havoced at the loop", fc.short, lname)
	}
	var keys []string
	for k := range st.heap {
		keys = append(keys, k)
	}
	for k := range touched {
		if _, ok := st.heap[k]; !ok {
			if srt, ok := fc.baseSort[k]; ok {
				fc.heapGet(st, k, srt)
				fc.heapGet(pre, k, srt)
				keys = append(keys, k)
			}
		}
	}
	sort.Strings(keys)
	var outsidePkgs []string
	for k := range touched {
		if strings.HasPrefix(k, "*outside:") {
			outsidePkgs = append(outsidePkgs, strings.TrimPrefix(k, "*outside:"))
		}
	}
	if len(outsidePkgs) > 0 && !all {
		// arrays first used after the loop must not be taken for their entry versions
		fc.nfresh++
		st.epoch = fc.nfresh
	}
	for _, k := range keys {
		outside := false
		for _, po := range outsidePkgs {
			if !fc.ownedBy(k, po) {
				outside = true
			}
		}
		if !all && !touched[k] && !outside {
			continue
		}
		old := st.heap[k]
		nw := fc.fresh(k+"_l", old.Sort)
		st.heap[k] = nw
		if k == "Alloc" {
			fc.fact(allocMono(old.S, nw.S))
			continue
		}
		if fc.c != nil && !fc.modEvery && !fc.modAll[k] && strings.HasPrefix(old.Sort, "(Array Int ") && !strings.HasPrefix(k, "VIS$") {
			fc.fact(fmt.Sprintf("(forall ((r Int)) (! (=> (not %s) (= (select %s r) (select %s r))) :pattern ((select %s r))))", fc.allowed(fr.old, k, "r"), nw.S, old.S, nw.S))
		}
	}
	// the cells of local variables that only this function writes, and not inside this loop, keep
	// their values (whatever the calls in the loop may modify)
	for f := fr; f != nil; f = f.parent {
		for _, pc := range f.priv {
			if f == fr && pc.alloc != nil && storedIn(pc.alloc, li.blocks) {
				continue
			}
			n := derefArrName(pc.elemT)
			o, ok1 := pre.heap[n]
			nw, ok2 := st.heap[n]
			if ok1 && ok2 && o.S != nw.S {
				fc.fact(eq(sel(nw.S, pc.ref.S), sel(o.S, pc.ref.S)))
			}
		}
	}
	for _, k := range keys {
		if k != "Alloc" {
			if fc.allocAt == nil {
				fc.allocAt = map[string]string{}
			}
			fc.allocAt[st.heap[k].S] = st.heap["Alloc"].S
		}
	}
	// 3. fresh phis
	hav := map[*ssa.Phi]Term{}
	for phi := range entry {
		v := fc.fresh("phi_"+phi.Name(), entry[phi].Sort)
		hav[phi] = v
		if v.Sort == SInt && isRefType(phi.Type()) {
			fc.assumeAllocated(st, v)
		}
		if isSlc(v.Sort) {
			fc.fact(fmt.Sprintf("(and (<= 0 (soff %s)) (<= 0 (slen %s)))", v.S, v.S))
		}
		if phi.Comment == "rangeindex" {
			fc.fact(fmt.Sprintf("(<= (- 1) %s)", v.S))
		}
	}
	fr.phis(b, hav)
	// map range: visited keys are in the domain
	// 4. assume invariants
	env2 := fr.loopEnv(li, st, hav)
	env2.entry = pre
	for _, cl := range spec.Invariants {
		t, err := env2.evalBool(cl.Expr)
		if err != nil {
			continue
		}
		fc.factIf(reach, t.S)
	}
	// 5. measures
	li.measure = nil
	for _, cl := range spec.Decreases {
		t, err := env2.eval(cl.Expr)
		if err != nil {
			fc.unsupported("%s decreases: %v", lname, err)
			continue
		}
		li.measure = append(li.measure, fc.define("measure", t.T))
	}
	if len(spec.Decreases) == 0 && fr.top && fc.c != nil && fc.c.Opts["terminates"] != "" {
		if _, isRange := li.node.(interface{ isRange() }); !isRange {
			if !isRangeLoop(li) {
				o := fc.oblig("termination", lname+".decreases.missing", "false", reach, b.Instrs[0].Pos(), nil)
				o.Src = "loop has no decreases clause"
			}
		}
	}
	return st
}

func isRangeLoop(li *loopInfo) bool {
	for _, in := range li.header.Instrs {
		if phi, ok := in.(*ssa.Phi); ok && phi.Comment == "rangeindex" {
			return true
		}
		if _, ok := in.(*ssa.Next); ok {
			return true
		}
	}
	return false
}

func (fr *frame) checkLoopBack(li *loopInfo, from *ssa.BasicBlock, st *State, cond string) {
	fc := fr.fc
	b := li.header
	lname := "loop" + strconv.Itoa(li.ordinal)
	back := map[*ssa.Phi]Term{}
	idx := -1
	for i, p := range b.Preds {
		if p == from {
			idx = i
		}
	}
	for _, in := range b.Instrs {
		phi, ok := in.(*ssa.Phi)
		if !ok {
			break
		}
		back[phi] = fr.term(phi.Edges[idx])
	}
	spec := li.spec
	if spec == nil {
		spec = &LoopSpec{}
	}
	env := fr.loopEnv(li, st, back)
	env.entry = li.entrySt
	for k, cl := range spec.Invariants {
		name := cl.Name
		if name == "" {
			name = strconv.Itoa(k)
		}
		t, err := env.evalBool(cl.Expr)
		if err != nil {
			continue
		}
		o := fc.oblig("invariant", lname+".inv."+name+".back", t.S, cond, from.Instrs[len(from.Instrs)-1].Pos(), nil)
		o.Src = cl.Src
	}
	if len(spec.Decreases) > 0 && len(li.measure) == len(spec.Decreases) {
		var alts []string
		var eqs []string
		for k, cl := range spec.Decreases {
			t, err := env.eval(cl.Expr)
			if err != nil {
				continue
			}
			m0 := li.measure[k]
			alts = append(alts, and(append(append([]string{}, eqs...), fmt.Sprintf("(< %s %s)", t.T.S, m0.S), fmt.Sprintf("(<= 0 %s)", m0.S))...))
			eqs = append(eqs, eq(t.T.S, m0.S))
		}
		o := fc.oblig("termination", lname+".decreases", or(alts...), cond, from.Instrs[len(from.Instrs)-1].Pos(), nil)
		var srcs []string
		for _, cl := range spec.Decreases {
			srcs = append(srcs, cl.Src)
		}
		o.Src = "decreases " + strings.Join(srcs, ", ")
	}
}

// loopEnv builds the environment in which loop invariants are evaluated.
func (fr *frame) loopEnv(li *loopInfo, st *State, phis map[*ssa.Phi]Term) *Env {
	fc := fr.fc
	env := fc.contractEnv(fc.c, fr.fn, nil, st, fr.old)
	env.fr = fr
	callerVars := env.vars
	if !fr.top {
		// a loop of an inlined callee: names are the callee's variables first, the caller's parameters second
		env.vars = map[string]CVal{}
		if fr.fn.Pkg != nil {
			env.pkg = fr.fn.Pkg.Pkg.Path()
		}
	}
	env.lookupAddr = fr.lookupAddr
	env.lookup = func(name string) (CVal, bool) {
		if !fr.top {
			for _, p := range fr.fn.Params {
				if p.Name() == name {
					if t, ok := fr.vals[p].(Term); ok {
						return CVal{t, withReg(p.Type(), fc.e.regionOf(p))}, true
					}
				}
			}
			defer func() {}()
		}
		if name == "$i" {
			for phi, v := range phis {
				if phi.Comment == "rangeindex" {
					return CVal{Term{"(+ " + v.S + " 1)", SInt}, types.Typ[types.Int]}, true
				}
			}
			return CVal{}, false
		}
		if name == "$outer" {
			// the index of the enclosing range loop ($i of the innermost loop that contains this one)
			var best *loopInfo
			for _, other := range fr.loops {
				if other == li || !other.blocks[li.header] || len(other.blocks) <= len(li.blocks) {
					continue
				}
				if best == nil || len(other.blocks) < len(best.blocks) {
					best = other
				}
			}
			if best != nil {
				for _, in := range best.header.Instrs {
					if phi, ok := in.(*ssa.Phi); ok && phi.Comment == "rangeindex" {
						if v, ok := fr.vals[phi].(Term); ok {
							return CVal{Term{"(+ " + v.S + " 1)", SInt}, types.Typ[types.Int]}, true
						}
					}
				}
			}
			return CVal{}, false
		}
		if name == "$outervis" {
			// the visited set of the enclosing map-range loop (the current key is already in it)
			var best *loopInfo
			for _, other := range fr.loops {
				if other == li || !other.blocks[li.header] || len(other.blocks) <= len(li.blocks) {
					continue
				}
				if best == nil || len(other.blocks) < len(best.blocks) {
					best = other
				}
			}
			if best != nil {
				for _, in := range best.header.Instrs {
					if nx, ok := in.(*ssa.Next); ok {
						if r, ok := nx.Iter.(*ssa.Range); ok {
							if it, ok := fr.vals[r].(*MapIter); ok && !it.Str {
								ks := fc.e.sortOf(it.MapT.Key())
								return CVal{fc.heapGet(st, it.Vis, arr(ks, SBool)), nil}, true
							}
						}
					}
				}
			}
			return CVal{}, false
		}
		if name == "$vis" {
			for _, in := range li.header.Instrs {
				if nx, ok := in.(*ssa.Next); ok {
					if r, ok := nx.Iter.(*ssa.Range); ok {
						if it, ok := fr.vals[r].(*MapIter); ok && !it.Str {
							ks := fc.e.sortOf(it.MapT.Key())
							return CVal{fc.heapGet(st, it.Vis, arr(ks, SBool)), nil}, true
						}
					}
				}
			}
			return CVal{}, false
		}
		// header phi named like the variable
		for phi, v := range phis {
			if phi.Comment == name {
				return CVal{v, withReg(phi.Type(), fc.e.regionOf(phi))}, true
			}
		}
		if v, ok := fr.lookupVar(name, li.header); ok {
			return v, true
		}
		if !fr.top {
			// a variable of the calling function (seen from the call site), then its parameters
			for p := fr; p.parent != nil && p.callBlock != nil; p = p.parent {
				if v, ok := p.parent.lookupVarAt(name, p.callBlock); ok {
					return v, true
				}
			}
			if v, ok := callerVars[name]; ok {
				return v, true
			}
		}
		return CVal{}, false
	}
	return env
}

// lookupVar finds the SSA value of source variable `name` at the entry of block at.
func (fr *frame) lookupVar(name string, at *ssa.BasicBlock) (CVal, bool) {
	bestDepth, bestIdx := -1, -1
	var best ssa.Value
	consider := func(b *ssa.BasicBlock, idx int, v ssa.Value) {
		if b == at || !b.Dominates(at) {
			return
		}
		d := fr.depth[b]
		if d > bestDepth || (d == bestDepth && idx > bestIdx) {
			bestDepth, bestIdx, best = d, idx, v
		}
	}
	for _, dr := range fr.debug[name] {
		if dr.addr {
			continue
		}
		consider(dr.block, dr.idx, dr.val)
	}
	for _, b := range fr.fn.Blocks {
		for i, in := range b.Instrs {
			if phi, ok := in.(*ssa.Phi); ok && phi.Comment == name {
				consider(b, i, phi)
			}
		}
	}
	if best == nil {
		// an address-taken variable: the Alloc itself, contract sees its current content
		for _, dr := range fr.debug[name] {
			if dr.addr && (dr.block.Dominates(at)) {
				if al, ok := dr.val.(*ssa.Alloc); ok {
					if r, ok := fr.vals[al].(Term); ok {
						return CVal{r, al.Type()}, true
					}
				}
			}
		}
		return CVal{}, false
	}
	v := fr.val(best)
	if t, ok := v.(Term); ok {
		return CVal{t, withReg(best.Type(), fr.fc.e.regionOf(best))}, true
	}
	return CVal{}, false
}

// lookupVarAt finds the SSA value of source variable `name` as seen by an instruction of block at
// (values bound in dominating blocks or earlier in at itself).
func (fr *frame) lookupVarAt(name string, at *ssa.BasicBlock) (CVal, bool) {
	bestDepth, bestIdx := -1, -1
	var best ssa.Value
	consider := func(b *ssa.BasicBlock, idx int, v ssa.Value) {
		if b != at && !b.Dominates(at) {
			return
		}
		if _, done := fr.vals[v]; !done {
			if _, isC := v.(*ssa.Const); !isC {
				return // not executed yet
			}
		}
		d := fr.depth[b]
		if d > bestDepth || (d == bestDepth && idx > bestIdx) {
			bestDepth, bestIdx, best = d, idx, v
		}
	}
	for _, dr := range fr.debug[name] {
		if dr.addr {
			continue
		}
		consider(dr.block, dr.idx, dr.val)
	}
	for _, b := range fr.fn.Blocks {
		for i, in := range b.Instrs {
			if phi, ok := in.(*ssa.Phi); ok && phi.Comment == name {
				consider(b, i, phi)
			}
		}
	}
	if best == nil {
		return fr.lookupVar(name, at)
	}
	v := fr.val(best)
	if t, ok := v.(Term); ok {
		return CVal{t, withReg(best.Type(), fr.fc.e.regionOf(best))}, true
	}
	return CVal{}, false
}

// lookupAddr: the cell of the address-taken (captured) local variable or parameter `name` of this
// frame or of a frame it is inlined into.
func (fr *frame) lookupAddr(name string) (CVal, bool) {
	for p := fr; p != nil; p = p.parent {
		for _, b := range p.fn.Blocks {
			for _, in := range b.Instrs {
				if al, ok := in.(*ssa.Alloc); ok && al.Comment == name {
					if r, ok := p.vals[al].(Term); ok {
						return CVal{r, al.Type()}, true
					}
				}
			}
		}
	}
	return CVal{}, false
}


// storedIn: some store to the cell lies in one of the blocks.
func storedIn(a *ssa.Alloc, blocks map[*ssa.BasicBlock]bool) bool {
	if a.Referrers() == nil {
		return true
	}
	for _, r := range *a.Referrers() {
		if st, ok := r.(*ssa.Store); ok && st.Addr == a && blocks[st.Block()] {
			return true
		}
	}
	return false
}

// staticClosureOf: v loads a local variable (or a variable captured from the enclosing function)
// that is assigned exactly once, a function literal: that function.
func staticClosureOf(v ssa.Value) *ssa.Function {
	u, ok := v.(*ssa.UnOp)
	if !ok {
		return nil
	}
	var cell ssa.Value = u.X
	for depth := 0; depth < 4; depth++ {
		switch x := cell.(type) {
		case *ssa.Alloc:
			if !singleStore(x) || !privateCell(x) {
				return nil
			}
			for _, r := range *x.Referrers() {
				if st, ok := r.(*ssa.Store); ok && st.Addr == x {
					if mc, ok := st.Val.(*ssa.MakeClosure); ok {
						if f, ok := mc.Fn.(*ssa.Function); ok {
							return f
						}
					}
				}
			}
			return nil
		case *ssa.FreeVar:
			fn := x.Parent()
			parent := fn.Parent()
			if parent == nil {
				return nil
			}
			idx := -1
			for k, fv := range fn.FreeVars {
				if fv == x {
					idx = k
				}
			}
			cell = nil
			for _, b := range parent.Blocks {
				for _, in := range b.Instrs {
					if mc, ok := in.(*ssa.MakeClosure); ok && mc.Fn == fn && idx >= 0 && idx < len(mc.Bindings) {
						cell = mc.Bindings[idx]
					}
				}
			}
			if cell == nil {
				return nil
			}
		default:
			return nil
		}
	}
	return nil
}
