package main

// Contract expression language: lexer, Pratt parser, AST.
//
//   e ::= literal | ident | e.f | e.#g | e[e] | e[e:e] | f(e,...) | old(e) | !e | -e
//       | e op e   (op: * / % + - ++ < <= > >= == != && || ==> <==>)
//       | forall x T, y U :: e | exists x T :: e | (e) | ite(c,a,b)
//
// Types in binders use Go syntax (*pkg.T, string, int, map[string]*T, ...) or the
// SMT-level names Ref, Int, Bool, String.

import (
	"fmt"
	"strconv"
	"strings"
	"unicode"
)

type Expr interface{ String() string }

type (
	ELit   struct{ Kind, Val string } // Kind: int, string, bool, nil, char
	EIdent struct{ Name string }
	ESel   struct {
		X     Expr
		Name  string
		Ghost bool
	}
	EIndex struct{ X, I Expr }
	ESlice struct{ X, Lo, Hi Expr } // Lo/Hi may be nil
	ECall  struct {
		Fn   string
		Args []Expr
	}
	EUn struct {
		Op string
		X  Expr
	}
	EBin struct {
		Op   string
		L, R Expr
	}
	EQuant struct {
		Forall   bool
		Vars     []QVar
		Body     Expr
		Triggers [][]Expr
	}
	QVar struct{ Name, Type string }
)

func (e *ELit) String() string   { return e.Val }
func (e *EIdent) String() string { return e.Name }
func (e *ESel) String() string {
	if e.Ghost {
		return e.X.String() + ".#" + e.Name
	}
	return e.X.String() + "." + e.Name
}
func (e *EIndex) String() string { return e.X.String() + "[" + e.I.String() + "]" }
func (e *ESlice) String() string {
	lo, hi := "", ""
	if e.Lo != nil {
		lo = e.Lo.String()
	}
	if e.Hi != nil {
		hi = e.Hi.String()
	}
	return e.X.String() + "[" + lo + ":" + hi + "]"
}
func (e *ECall) String() string {
	var a []string
	for _, x := range e.Args {
		a = append(a, x.String())
	}
	return e.Fn + "(" + strings.Join(a, ", ") + ")"
}
func (e *EUn) String() string  { return e.Op + e.X.String() }
func (e *EBin) String() string { return "(" + e.L.String() + " " + e.Op + " " + e.R.String() + ")" }
func (e *EQuant) String() string {
	q := "exists"
	if e.Forall {
		q = "forall"
	}
	var vs []string
	for _, v := range e.Vars {
		vs = append(vs, v.Name+" "+v.Type)
	}
	return "(" + q + " " + strings.Join(vs, ", ") + " :: " + e.Body.String() + ")"
}

type tok struct {
	kind string // id, int, str, char, op, eof
	s    string
}

func lexExpr(src string) ([]tok, error) {
	var out []tok
	i := 0
	for i < len(src) {
		c := src[i]
		switch {
		case c == ' ' || c == '\t':
			i++
		case unicode.IsLetter(rune(c)) || c == '_' || c == '$':
			j := i
			for j < len(src) && (unicode.IsLetter(rune(src[j])) || unicode.IsDigit(rune(src[j])) || src[j] == '_' || src[j] == '$') {
				j++
			}
			out = append(out, tok{"id", src[i:j]})
			i = j
		case unicode.IsDigit(rune(c)):
			j := i
			for j < len(src) && unicode.IsDigit(rune(src[j])) {
				j++
			}
			out = append(out, tok{"int", src[i:j]})
			i = j
		case c == '"':
			j := i + 1
			for j < len(src) && src[j] != '"' {
				if src[j] == '\\' {
					j++
				}
				j++
			}
			if j >= len(src) {
				return nil, fmt.Errorf("unterminated string in %q", src)
			}
			s, err := strconv.Unquote(src[i : j+1])
			if err != nil {
				return nil, fmt.Errorf("bad string %s: %v", src[i:j+1], err)
			}
			out = append(out, tok{"str", s})
			i = j + 1
		case c == '\'':
			j := i + 1
			for j < len(src) && src[j] != '\'' {
				if src[j] == '\\' {
					j++
				}
				j++
			}
			r, _, _, err := strconv.UnquoteChar(src[i+1:j], '\'')
			if err != nil {
				return nil, fmt.Errorf("bad char %s", src[i:j+1])
			}
			out = append(out, tok{"int", strconv.Itoa(int(r))})
			i = j + 1
		default:
			ops := []string{"<==>", "==>", "::", "++", "==", "!=", "<=", ">=", "&&", "||", ".#"}
			found := false
			for _, op := range ops {
				if strings.HasPrefix(src[i:], op) {
					out = append(out, tok{"op", op})
					i += len(op)
					found = true
					break
				}
			}
			if !found {
				out = append(out, tok{"op", string(c)})
				i++
			}
		}
	}
	out = append(out, tok{"eof", ""})
	return out, nil
}

type eparser struct {
	toks []tok
	p    int
	src  string
}

func ParseExpr(src string) (Expr, error) {
	toks, err := lexExpr(src)
	if err != nil {
		return nil, err
	}
	p := &eparser{toks: toks, src: src}
	var e Expr
	func() {
		defer func() {
			if r := recover(); r != nil {
				if pe, ok := r.(perr); ok {
					err = fmt.Errorf("%s in %q", string(pe), src)
					return
				}
				panic(r)
			}
		}()
		e = p.expr(0)
		if p.cur().kind != "eof" {
			p.fail("trailing input at %q", p.cur().s)
		}
	}()
	return e, err
}

type perr string

func (p *eparser) fail(f string, a ...interface{}) { panic(perr(fmt.Sprintf(f, a...))) }
func (p *eparser) cur() tok                        { return p.toks[p.p] }
func (p *eparser) adv() tok                        { t := p.toks[p.p]; p.p++; return t }
func (p *eparser) isOp(s string) bool              { return p.cur().kind == "op" && p.cur().s == s }
func (p *eparser) want(s string) {
	if !p.isOp(s) {
		p.fail("expected %q, got %q", s, p.cur().s)
	}
	p.p++
}

var binPrec = map[string]int{
	"<==>": 1, "==>": 2, "||": 3, "&&": 4,
	"==": 5, "!=": 5, "<": 5, "<=": 5, ">": 5, ">=": 5,
	"+": 6, "-": 6, "++": 6, "*": 7, "/": 7, "%": 7,
}

func (p *eparser) expr(min int) Expr {
	l := p.unary()
	for {
		t := p.cur()
		if t.kind != "op" {
			return l
		}
		pr, ok := binPrec[t.s]
		if !ok || pr < min {
			return l
		}
		p.p++
		var r Expr
		if t.s == "==>" || t.s == "<==>" { // right assoc
			r = p.expr(pr)
		} else {
			r = p.expr(pr + 1)
		}
		l = &EBin{t.s, l, r}
	}
}

func (p *eparser) unary() Expr {
	if p.isOp("!") {
		p.p++
		return &EUn{"!", p.unary()}
	}
	if p.isOp("-") {
		p.p++
		return &EUn{"-", p.unary()}
	}
	return p.postfix(p.primary())
}

func (p *eparser) postfix(x Expr) Expr {
	for {
		switch {
		case p.isOp("."):
			p.p++
			t := p.adv()
			if t.kind != "id" {
				p.fail("field name expected")
			}
			x = &ESel{x, t.s, false}
		case p.isOp(".#"):
			p.p++
			t := p.adv()
			if t.kind != "id" {
				p.fail("ghost field name expected")
			}
			x = &ESel{x, t.s, true}
		case p.isOp("["):
			p.p++
			var lo, hi Expr
			if p.isOp(":") {
				p.p++
				if !p.isOp("]") {
					hi = p.expr(0)
				}
				p.want("]")
				x = &ESlice{x, nil, hi}
				continue
			}
			lo = p.expr(0)
			if p.isOp(":") {
				p.p++
				if !p.isOp("]") {
					hi = p.expr(0)
				}
				p.want("]")
				x = &ESlice{x, lo, hi}
				continue
			}
			p.want("]")
			x = &EIndex{x, lo}
		default:
			return x
		}
	}
}

func (p *eparser) typeStr() string {
	// consume tokens up to ',' or '::' at depth 0
	var sb strings.Builder
	depth := 0
	for {
		t := p.cur()
		if t.kind == "eof" {
			p.fail("type expected")
		}
		if depth == 0 && t.kind == "op" && (t.s == "," || t.s == "::") {
			break
		}
		if t.kind == "op" && t.s == "[" {
			depth++
		}
		if t.kind == "op" && t.s == "]" {
			depth--
		}
		sb.WriteString(t.s)
		p.p++
	}
	return sb.String()
}

func (p *eparser) primary() Expr {
	t := p.adv()
	switch t.kind {
	case "int":
		return &ELit{"int", t.s}
	case "str":
		return &ELit{"string", t.s}
	case "id":
		switch t.s {
		case "true", "false":
			return &ELit{"bool", t.s}
		case "nil":
			return &ELit{"nil", "nil"}
		case "forall", "exists":
			var vs []QVar
			for {
				n := p.adv()
				if n.kind != "id" {
					p.fail("binder name expected")
				}
				ty := p.typeStr()
				vs = append(vs, QVar{n.s, ty})
				if p.isOp(",") {
					p.p++
					continue
				}
				break
			}
			p.want("::")
			var trigs [][]Expr
			for p.isOp("{") {
				p.p++
				var grp []Expr
				for !p.isOp("}") {
					grp = append(grp, p.expr(0))
					if p.isOp(",") {
						p.p++
					}
				}
				p.want("}")
				trigs = append(trigs, grp)
			}
			body := p.expr(0)
			return &EQuant{t.s == "forall", vs, body, trigs}
		}
		if p.isOp("(") {
			p.p++
			var args []Expr
			for !p.isOp(")") {
				args = append(args, p.expr(0))
				if p.isOp(",") {
					p.p++
				}
			}
			p.want(")")
			return &ECall{t.s, args}
		}
		return &EIdent{t.s}
	case "op":
		if t.s == "(" {
			e := p.expr(0)
			p.want(")")
			return e
		}
	}
	p.fail("unexpected token %q", t.s)
	return nil
}
