package main

import (
	"fmt"
	"go/types"
	"regexp"
	"sort"
	"strings"
)

// Term is an SMT-LIB term with its sort.
type Term struct {
	S    string
	Sort string
}

func (t Term) String() string { return t.S }

const (
	SInt    = "Int"
	SBool   = "Bool"
	SString = "String"
	SAny    = "Any"
	STime   = "Time"
	SF64    = "F64"
)

func arr(k, v string) string { return "(Array " + k + " " + v + ")" }
func slc(e string) string    { return "(Slc " + e + ")" }

func isArr(s string) bool { return strings.HasPrefix(s, "(Array ") }
func isSlc(s string) bool { return strings.HasPrefix(s, "(Slc ") }

// splitSort splits "(Array K V)" into K and V, "(Slc E)" into E.
func sortArgs(s string) []string {
	if !strings.HasPrefix(s, "(") {
		return nil
	}
	inner := s[1 : len(s)-1]
	var out []string
	depth := 0
	last := 0
	for i := 0; i < len(inner); i++ {
		switch inner[i] {
		case '(':
			depth++
		case ')':
			depth--
		case ' ':
			if depth == 0 {
				out = append(out, inner[last:i])
				last = i + 1
			}
		}
	}
	out = append(out, inner[last:])
	return out[1:]
}

func sanitize(s string) string {
	r := strings.NewReplacer("(", "_", ")", "_", " ", "_", "*", "p", "/", "_", ".", "_", "[", "_", "]", "_", "-", "_", "{", "_", "}", "_", ",", "_", ";", "_")
	return r.Replace(s)
}

// ---- Go type -> sort ----

type structInfo struct {
	name   string // datatype name
	fields []*types.Var
	sorts  []string
}

func isByte(t types.Type) bool {
	b, ok := t.Underlying().(*types.Basic)
	return ok && (b.Kind() == types.Uint8)
}

var reCanonByte = regexp.MustCompile(`\bbyte\b`)
var reCanonRune = regexp.MustCompile(`\brune\b`)
var reCanonAny = regexp.MustCompile(`\bany\b`)

// typeKey: canonical name of a type (byte/uint8, rune/int32 and any/interface{} identified).
func typeKey(t types.Type) string {
	t = unwrapT(t)
	s := types.TypeString(t, func(p *types.Package) string { return p.Path() })
	s = reCanonByte.ReplaceAllString(s, "uint8")
	s = reCanonRune.ReplaceAllString(s, "int32")
	s = reCanonAny.ReplaceAllString(s, "interface{}")
	return s
}

func shortType(t types.Type) string {
	t = unwrapT(t)
	s := types.TypeString(t, func(p *types.Package) string { return p.Name() })
	s = reCanonByte.ReplaceAllString(s, "uint8")
	s = reCanonRune.ReplaceAllString(s, "int32")
	s = reCanonAny.ReplaceAllString(s, "interface{}")
	return s
}

func isTimeType(t types.Type) bool {
	n, ok := t.(*types.Named)
	return ok && n.Obj().Pkg() != nil && n.Obj().Pkg().Path() == "time" && n.Obj().Name() == "Time"
}

func isNamed(t types.Type, pkg, name string) bool {
	if p, ok := t.(*types.Pointer); ok {
		t = p.Elem()
	}
	n, ok := t.(*types.Named)
	return ok && n.Obj().Pkg() != nil && n.Obj().Pkg().Path() == pkg && n.Obj().Name() == name
}

func (e *Engine) sortOf(t types.Type) string {
	if t == nil {
		return SInt
	}
	if isTimeType(t) {
		return STime
	}
	if isSyncType(t) {
		return SInt // sync.Mutex, sync.WaitGroup, ...: opaque
	}
	if a, ok := t.(*types.Alias); ok {
		return e.sortOf(types.Unalias(a))
	}
	switch u := t.Underlying().(type) {
	case *types.Basic:
		switch {
		case u.Info()&types.IsBoolean != 0:
			return SBool
		case u.Info()&types.IsString != 0:
			return SString
		case u.Info()&types.IsFloat != 0:
			return SF64
		case u.Kind() == types.UntypedNil:
			return SInt
		default:
			return SInt
		}
	case *types.Pointer, *types.Map, *types.Chan, *types.Signature:
		return SInt
	case *types.Slice:
		if isByte(u.Elem()) {
			return SString
		}
		return slc(e.sortOf(u.Elem()))
	case *types.Array:
		return arr(SInt, e.sortOf(u.Elem()))
	case *types.Interface:
		return SAny
	case *types.Struct:
		return e.structSort(t, u)
	case *types.Tuple:
		return "TUPLE"
	}
	return SInt
}

func (e *Engine) structSort(t types.Type, u *types.Struct) string {
	key := typeKey(t)
	if si, ok := e.structs[key]; ok {
		return si.name
	}
	si := &structInfo{name: "S$" + sanitize(shortType(t))}
	e.structs[key] = si
	for i := 0; i < u.NumFields(); i++ {
		f := u.Field(i)
		if isSyncType(f.Type()) {
			continue
		}
		si.fields = append(si.fields, f)
		si.sorts = append(si.sorts, e.sortOf(f.Type()))
	}
	e.structOrder = append(e.structOrder, key)
	return si.name
}

func isSyncType(t types.Type) bool {
	n, ok := t.(*types.Named)
	return ok && n.Obj().Pkg() != nil && n.Obj().Pkg().Path() == "sync"
}

func (e *Engine) structDecls() []string {
	var out []string
	for _, k := range e.structOrder {
		si := e.structs[k]
		var fs []string
		for i, f := range si.fields {
			fs = append(fs, fmt.Sprintf("(%s$%s %s)", si.name, f.Name(), si.sorts[i]))
		}
		if len(fs) == 0 {
			fs = append(fs, fmt.Sprintf("(%s$$dummy Int)", si.name))
		}
		out = append(out, fmt.Sprintf("(declare-datatypes ((%s 0)) (((mk%s %s))))", si.name, si.name, strings.Join(fs, " ")))
	}
	return out
}

// zero value of a sort
func (e *Engine) zero(sortName string, t types.Type) Term {
	switch sortName {
	case SInt:
		return Term{"0", SInt}
	case SBool:
		return Term{"false", SBool}
	case SString:
		return Term{"\"\"", SString}
	case SAny:
		return Term{"anil", SAny}
	case STime:
		return Term{"time$zero", STime}
	case SF64:
		return Term{"f64$zero", SF64}
	}
	if isSlc(sortName) {
		el := sortArgs(sortName)[0]
		return Term{fmt.Sprintf("(mkslc ((as const %s) %s) 0 0)", arr(SInt, el), e.zero(el, nil).S), sortName}
	}
	if isArr(sortName) {
		a := sortArgs(sortName)
		return Term{fmt.Sprintf("((as const %s) %s)", sortName, e.zero(a[1], nil).S), sortName}
	}
	// struct datatype
	for _, k := range e.structOrder {
		si := e.structs[k]
		if si.name == sortName {
			var fs []string
			for i := range si.fields {
				fs = append(fs, e.zero(si.sorts[i], si.fields[i].Type()).S)
			}
			if len(fs) == 0 {
				fs = append(fs, "0")
			}
			return Term{fmt.Sprintf("(mk%s %s)", si.name, strings.Join(fs, " ")), sortName}
		}
	}
	panic("zero: unknown sort " + sortName)
}

// ---- type tags for interface values ----

func (e *Engine) typeTag(t types.Type) int {
	k := typeKey(t)
	if id, ok := e.typeTags[k]; ok {
		return id
	}
	id := len(e.typeTags) + 1
	e.typeTags[k] = id
	e.typeTagNames = append(e.typeTagNames, k)
	return id
}

// box a value of Go type t into Any.
func (e *Engine) box(v Term, t types.Type) Term {
	if v.Sort == SAny {
		return v
	}
	tag := e.typeTag(t)
	switch v.Sort {
	case SInt:
		if _, isPtr := t.Underlying().(*types.Basic); isPtr {
			return Term{fmt.Sprintf("(aint %d %s)", tag, v.S), SAny}
		}
		return Term{fmt.Sprintf("(aref %d %s)", tag, v.S), SAny}
	case SBool:
		return Term{fmt.Sprintf("(abool %d %s)", tag, v.S), SAny}
	case SString:
		return Term{fmt.Sprintf("(astr %d %s)", tag, v.S), SAny}
	case SF64:
		return Term{fmt.Sprintf("(af64 %d %s)", tag, v.S), SAny}
	case STime:
		return Term{fmt.Sprintf("(atime %d %s)", tag, v.S), SAny}
	}
	// other sorts: opaque boxing
	fn := "box$" + sanitize(v.Sort)
	e.needBox[v.Sort] = true
	return Term{fmt.Sprintf("(aother %d (%s %s))", tag, fn, v.S), SAny}
}

func (e *Engine) unbox(a Term, t types.Type) Term {
	s := e.sortOf(t)
	switch s {
	case SAny:
		return a
	case SInt:
		if _, isBasic := t.Underlying().(*types.Basic); isBasic {
			return Term{fmt.Sprintf("(aival %s)", a.S), SInt}
		}
		return Term{fmt.Sprintf("(arval %s)", a.S), SInt}
	case SBool:
		return Term{fmt.Sprintf("(abval %s)", a.S), SBool}
	case SString:
		return Term{fmt.Sprintf("(asval %s)", a.S), SString}
	case SF64:
		return Term{fmt.Sprintf("(afval %s)", a.S), SF64}
	case STime:
		return Term{fmt.Sprintf("(atval %s)", a.S), STime}
	}
	e.needBox[s] = true
	return Term{fmt.Sprintf("(unbox$%s (aoid %s))", sanitize(s), a.S), s}
}

// isType: does interface value a hold dynamic type t
func (e *Engine) hasType(a Term, t types.Type) Term {
	tag := e.typeTag(t)
	s := e.sortOf(t)
	var test string
	switch s {
	case SInt:
		if _, isBasic := t.Underlying().(*types.Basic); isBasic {
			test = "aint"
		} else {
			test = "aref"
		}
	case SBool:
		test = "abool"
	case SString:
		test = "astr"
	case SF64:
		test = "af64"
	case STime:
		test = "atime"
	default:
		test = "aother"
	}
	return Term{fmt.Sprintf("(and ((_ is %s) %s) (= (atag %s) %d))", test, a.S, a.S, tag), SBool}
}

const preludeAny = `(declare-sort F64 0)
(declare-datatypes ((Time 0)) (((mktime (tinst Int) (tzone Int)))))
(declare-datatypes ((Slc 1)) ((par (T) ((mkslc (sarr (Array Int T)) (soff Int) (slen Int))))))
(declare-datatypes ((Any 0)) (((anil) (aint (atag_i Int) (aival Int)) (aref (atag_r Int) (arval Int)) (abool (atag_b Int) (abval Bool)) (astr (atag_s Int) (asval String)) (af64 (atag_f Int) (afval F64)) (atime (atag_t Int) (atval Time)) (aother (atag_o Int) (aoid Int)) (aerr (aerrid Int)))))
(define-fun atag ((a Any)) Int (ite ((_ is aint) a) (atag_i a) (ite ((_ is aref) a) (atag_r a) (ite ((_ is abool) a) (atag_b a) (ite ((_ is astr) a) (atag_s a) (ite ((_ is af64) a) (atag_f a) (ite ((_ is atime) a) (atag_t a) (ite ((_ is aother) a) (atag_o a) (ite ((_ is aerr) a) (- 1) 0)))))))))
(define-fun ws$re () RegLan (re.union (re.range "\u{9}" "\u{d}") (str.to_re " ") (str.to_re "\u{c2}\u{85}") (str.to_re "\u{c2}\u{a0}") (str.to_re "\u{e1}\u{9a}\u{80}") (re.++ (str.to_re "\u{e2}\u{80}") (re.range "\u{80}" "\u{8a}")) (str.to_re "\u{e2}\u{80}\u{a8}") (str.to_re "\u{e2}\u{80}\u{a9}") (str.to_re "\u{e2}\u{80}\u{af}") (str.to_re "\u{e2}\u{81}\u{9f}") (str.to_re "\u{e3}\u{80}\u{80}")))
(declare-const time$zero Time)
(declare-const f64$zero F64)
`

func (e *Engine) boxDecls() []string {
	var ks []string
	for k := range e.needBox {
		ks = append(ks, k)
	}
	sort.Strings(ks)
	var out []string
	for _, s := range ks {
		n := sanitize(s)
		out = append(out, fmt.Sprintf("(declare-fun box$%s (%s) Int)", n, s))
		out = append(out, fmt.Sprintf("(declare-fun unbox$%s (Int) %s)", n, s))
		out = append(out, fmt.Sprintf("(assert (forall ((x %s)) (! (= (unbox$%s (box$%s x)) x) :pattern ((box$%s x)))))", s, n, n, n))
	}
	return out
}
