package main

// Assumed contracts of library functions (trusted base). Each model is listed in the
// evidence of every property whose obligations use it.

import (
	"fmt"
	"go/constant"
	"go/types"
	"strings"

	"golang.org/x/tools/go/ssa"
)

type libModel func(fr *frame, in ssa.Instruction, c *ssa.CallCommon, args []Val, st *State, reach string) Val

var libModels map[string]libModel
var libTouches = map[string][]string{}
var libPure = map[string]bool{}

func tArg(args []Val, i int) Term {
	if i < len(args) {
		if t, ok := args[i].(Term); ok {
			return t
		}
	}
	return Term{"0", SInt}
}

func errTerm(fc *FnCtx, what string) Term {
	id := fc.fresh("errid_"+what, SInt)
	return Term{"(aerr " + id.S + ")", SAny}
}

// an error value that may or may not be nil
func maybeErr(fc *FnCtx, ok Term) Term {
	id := fc.fresh("errid", SInt)
	return fc.define("err", Term{fmt.Sprintf("(ite %s anil (aerr %s))", ok.S, id.S), SAny})
}

const asciiSpace = " \t\n\r\u000b\u000c"

func init() {
	libModels = map[string]libModel{
		"strings.TrimSpace": func(fr *frame, in ssa.Instruction, c *ssa.CallCommon, args []Val, st *State, reach string) Val {
			fc := fr.fc
			s := tArg(args, 0)
			// trim$(s) is a function of s (so that contracts can name it); exactly the leading and trailing
			// Unicode white space (as UTF-8 byte sequences) is removed
			fc.declareFun("trim$", []string{SString}, SString)
			fc.declareFun("trim$off", []string{SString}, SInt)
			r := fc.define("trim", Term{"(trim$ " + s.S + ")", SString})
			i := Term{"(trim$off " + s.S + ")", SInt}
			trimFacts(fc, s, r, i)
			return r
		},
		"strings.Index": func(fr *frame, in ssa.Instruction, c *ssa.CallCommon, args []Val, st *State, reach string) Val {
			return fr.fc.define("idx", Term{fmt.Sprintf("(str.indexof %s %s 0)", tArg(args, 0).S, tArg(args, 1).S), SInt})
		},
		"strings.HasPrefix": func(fr *frame, in ssa.Instruction, c *ssa.CallCommon, args []Val, st *State, reach string) Val {
			return Term{fmt.Sprintf("(str.prefixof %s %s)", tArg(args, 1).S, tArg(args, 0).S), SBool}
		},
		"strings.HasSuffix": func(fr *frame, in ssa.Instruction, c *ssa.CallCommon, args []Val, st *State, reach string) Val {
			return Term{fmt.Sprintf("(str.suffixof %s %s)", tArg(args, 1).S, tArg(args, 0).S), SBool}
		},
		"strings.Contains": func(fr *frame, in ssa.Instruction, c *ssa.CallCommon, args []Val, st *State, reach string) Val {
			return Term{fmt.Sprintf("(str.contains %s %s)", tArg(args, 0).S, tArg(args, 1).S), SBool}
		},
		"strings.ContainsAny": func(fr *frame, in ssa.Instruction, c *ssa.CallCommon, args []Val, st *State, reach string) Val {
			fc := fr.fc
			if k, ok := c.Args[1].(*ssa.Const); ok && k.Value != nil {
				chars := constant.StringVal(k.Value)
				var alts []string
				for i := 0; i < len(chars); i++ {
					if chars[i] >= 128 {
						fc.unsupported("strings.ContainsAny with non-ASCII set")
					}
					alts = append(alts, fmt.Sprintf("(str.contains %s %s)", tArg(args, 0).S, smtString(chars[i:i+1])))
				}
				return fc.define("cany", Term{or(alts...), SBool})
			}
			return fc.fresh("cany", SBool)
		},
		"strings.ToLower": func(fr *frame, in ssa.Instruction, c *ssa.CallCommon, args []Val, st *State, reach string) Val {
			fc := fr.fc
			fc.declareFun("str$lower", []string{SString}, SString)
			return Term{"(str$lower " + tArg(args, 0).S + ")", SString}
		},
		"strings.EqualFold": func(fr *frame, in ssa.Instruction, c *ssa.CallCommon, args []Val, st *State, reach string) Val {
			fc := fr.fc
			fc.declareFun("str$fold", []string{SString}, SString)
			return Term{fmt.Sprintf("(= (str$fold %s) (str$fold %s))", tArg(args, 0).S, tArg(args, 1).S), SBool}
		},
		"strings.Split": func(fr *frame, in ssa.Instruction, c *ssa.CallCommon, args []Val, st *State, reach string) Val {
			fc := fr.fc
			r := fc.fresh("split", slc(SString))
			fc.fact(fmt.Sprintf("(and (= (soff %s) 0) (<= 1 (slen %s)))", r.S, r.S))
			return r
		},
		"fmt.Errorf": func(fr *frame, in ssa.Instruction, c *ssa.CallCommon, args []Val, st *State, reach string) Val {
			return errTerm(fr.fc, "errorf")
		},
		"errors.New": func(fr *frame, in ssa.Instruction, c *ssa.CallCommon, args []Val, st *State, reach string) Val {
			return errTerm(fr.fc, "new")
		},
		"fmt.Sprintf": sprintfModel,
		"strconv.Unquote": func(fr *frame, in ssa.Instruction, c *ssa.CallCommon, args []Val, st *State, reach string) Val {
			fc := fr.fc
			fc.declareFun("unquote$val", []string{SString}, SString)
			fc.declareFun("unquote$ok", []string{SString}, SBool)
			s := tArg(args, 0)
			ok := Term{"(unquote$ok " + s.S + ")", SBool}
			// Unquote succeeds only on strings of length >= 2
			fc.fact(fmt.Sprintf("(=> %s (>= (str.len %s) 2))", ok.S, s.S))
			v := fc.define("unq", Term{fmt.Sprintf("(ite %s (unquote$val %s) \"\")", ok.S, s.S), SString})
			return &Tuple{[]Val{v, maybeErr(fc, ok)}}
		},
		"strconv.Quote": func(fr *frame, in ssa.Instruction, c *ssa.CallCommon, args []Val, st *State, reach string) Val {
			fc := fr.fc
			fc.declareFun("quote$", []string{SString}, SString)
			return Term{"(quote$ " + tArg(args, 0).S + ")", SString}
		},
		"strconv.ParseBool": func(fr *frame, in ssa.Instruction, c *ssa.CallCommon, args []Val, st *State, reach string) Val {
			fc := fr.fc
			fc.declareFun("parsebool$val", []string{SString}, SBool)
			fc.declareFun("parsebool$ok", []string{SString}, SBool)
			s := tArg(args, 0)
			ok := Term{"(parsebool$ok " + s.S + ")", SBool}
			v := fc.define("pb", Term{fmt.Sprintf("(and %s (parsebool$val %s))", ok.S, s.S), SBool})
			return &Tuple{[]Val{v, maybeErr(fc, ok)}}
		},
		"strconv.ParseInt": func(fr *frame, in ssa.Instruction, c *ssa.CallCommon, args []Val, st *State, reach string) Val {
			fc := fr.fc
			fc.declareFun("parseint$val", []string{SString}, SInt)
			fc.declareFun("parseint$ok", []string{SString}, SBool)
			s := tArg(args, 0)
			ok := Term{"(parseint$ok " + s.S + ")", SBool}
			v := fc.define("pi", Term{fmt.Sprintf("(parseint$val %s)", s.S), SInt})
			fc.fact(fmt.Sprintf("(and (<= (- 9223372036854775808) %s) (<= %s 9223372036854775807))", v.S, v.S))
			return &Tuple{[]Val{v, maybeErr(fc, ok)}}
		},
		"strconv.ParseUint": func(fr *frame, in ssa.Instruction, c *ssa.CallCommon, args []Val, st *State, reach string) Val {
			fc := fr.fc
			fc.declareFun("parseuint$val", []string{SString}, SInt)
			fc.declareFun("parseuint$ok", []string{SString}, SBool)
			s := tArg(args, 0)
			ok := Term{"(parseuint$ok " + s.S + ")", SBool}
			v := fc.define("pu", Term{fmt.Sprintf("(parseuint$val %s)", s.S), SInt})
			bits := tArg(args, 2)
			fc.fact(fmt.Sprintf("(<= 0 %s)", v.S))
			fc.fact(fmt.Sprintf("(=> (and %s (= %s 8)) (<= %s 255))", ok.S, bits.S, v.S))
			return &Tuple{[]Val{v, maybeErr(fc, ok)}}
		},
		"strconv.ParseFloat": func(fr *frame, in ssa.Instruction, c *ssa.CallCommon, args []Val, st *State, reach string) Val {
			fc := fr.fc
			fc.declareFun("parsefloat$val", []string{SString}, SF64)
			fc.declareFun("parsefloat$ok", []string{SString}, SBool)
			s := tArg(args, 0)
			ok := Term{"(parsefloat$ok " + s.S + ")", SBool}
			return &Tuple{[]Val{Term{"(parsefloat$val " + s.S + ")", SF64}, maybeErr(fc, ok)}}
		},
		"time.Parse": func(fr *frame, in ssa.Instruction, c *ssa.CallCommon, args []Val, st *State, reach string) Val {
			fc := fr.fc
			fc.declareFun("timeparse$val", []string{SString, SString}, STime)
			fc.declareFun("timeparse$ok", []string{SString, SString}, SBool)
			l, s := tArg(args, 0), tArg(args, 1)
			ok := Term{fmt.Sprintf("(timeparse$ok %s %s)", l.S, s.S), SBool}
			return &Tuple{[]Val{Term{fmt.Sprintf("(timeparse$val %s %s)", l.S, s.S), STime}, maybeErr(fc, ok)}}
		},
		"time.(Time).Format": func(fr *frame, in ssa.Instruction, c *ssa.CallCommon, args []Val, st *State, reach string) Val {
			fc := fr.fc
			fc.declareFun("timefmt$", []string{STime, SString}, SString)
			return Term{fmt.Sprintf("(timefmt$ %s %s)", tArg(args, 0).S, tArg(args, 1).S), SString}
		},
		"time.(Time).Equal": func(fr *frame, in ssa.Instruction, c *ssa.CallCommon, args []Val, st *State, reach string) Val {
			return Term{fmt.Sprintf("(= (tinst %s) (tinst %s))", tArg(args, 0).S, tArg(args, 1).S), SBool}
		},
		"time.(Time).Before": func(fr *frame, in ssa.Instruction, c *ssa.CallCommon, args []Val, st *State, reach string) Val {
			return Term{fmt.Sprintf("(< (tinst %s) (tinst %s))", tArg(args, 0).S, tArg(args, 1).S), SBool}
		},
		"time.(Time).After": func(fr *frame, in ssa.Instruction, c *ssa.CallCommon, args []Val, st *State, reach string) Val {
			return Term{fmt.Sprintf("(> (tinst %s) (tinst %s))", tArg(args, 0).S, tArg(args, 1).S), SBool}
		},
		"time.(Time).Sub": func(fr *frame, in ssa.Instruction, c *ssa.CallCommon, args []Val, st *State, reach string) Val {
			fr.fc.assumes = append(fr.fc.assumes, "time.Time.Sub modelled as exact difference of instants (saturation at +-292 years ignored)")
			return Term{fmt.Sprintf("(- (tinst %s) (tinst %s))", tArg(args, 0).S, tArg(args, 1).S), SInt}
		},
		"time.(Time).UnixNano": func(fr *frame, in ssa.Instruction, c *ssa.CallCommon, args []Val, st *State, reach string) Val {
			fc := fr.fc
			fc.declareFun("wrap64", []string{SInt}, SInt)
			return Term{fmt.Sprintf("(wrap64 (tinst %s))", tArg(args, 0).S), SInt}
		},
		"unicode/utf8.DecodeRuneInString": func(fr *frame, in ssa.Instruction, c *ssa.CallCommon, args []Val, st *State, reach string) Val {
			fc := fr.fc
			s := tArg(args, 0)
			fc.declareFun("utf8$rune", []string{SString}, SInt)
			fc.declareFun("utf8$width", []string{SString}, SInt)
			r := fc.define("rune", Term{"(utf8$rune " + s.S + ")", SInt})
			w := fc.define("width", Term{"(utf8$width " + s.S + ")", SInt})
			fc.fact(fmt.Sprintf("(ite (= (str.len %s) 0) (and (= %s 65533) (= %s 0)) (and (<= 1 %s) (<= %s 4) (<= %s (str.len %s)) (<= 0 %s) (<= %s 1114111)))", s.S, r.S, w.S, w.S, w.S, w.S, s.S, r.S, r.S))
			// ASCII bytes decode to themselves with width 1
			fc.fact(fmt.Sprintf("(=> (and (> (str.len %s) 0) (< (str.to_code (str.at %s 0)) 128)) (and (= %s (str.to_code (str.at %s 0))) (= %s 1)))", s.S, s.S, r.S, s.S, w.S))
			fc.fact(fmt.Sprintf("(=> (and (> (str.len %s) 0) (>= (str.to_code (str.at %s 0)) 128)) (>= %s 128))", s.S, s.S, r.S))
			return &Tuple{[]Val{r, w}}
		},
		"unicode.IsLetter": uniPred("uni$letter", func(r string) string {
			return fmt.Sprintf("(=> (and (<= 0 %s) (< %s 128)) (= (uni$letter %s) (or (and (<= 65 %s) (<= %s 90)) (and (<= 97 %s) (<= %s 122)))))", r, r, r, r, r, r, r)
		}),
		"unicode.IsDigit": uniPred("uni$digit", func(r string) string {
			return fmt.Sprintf("(=> (and (<= 0 %s) (< %s 128)) (= (uni$digit %s) (and (<= 48 %s) (<= %s 57))))", r, r, r, r, r)
		}),
		"unicode.IsSpace": uniPred("uni$space", func(r string) string {
			return fmt.Sprintf("(=> (and (<= 0 %s) (< %s 128)) (= (uni$space %s) (or (and (<= 9 %s) (<= %s 13)) (= %s 32))))", r, r, r, r, r, r)
		}),
		"unicode.ToLower": func(fr *frame, in ssa.Instruction, c *ssa.CallCommon, args []Val, st *State, reach string) Val {
			fc := fr.fc
			fc.declareFun("uni$lower", []string{SInt}, SInt)
			r := tArg(args, 0)
			v := fc.define("lower", Term{"(uni$lower " + r.S + ")", SInt})
			fc.fact(fmt.Sprintf("(=> (< %s 0) (= %s %s))", r.S, v.S, r.S))
			fc.fact(fmt.Sprintf("(=> (and (<= 0 %s) (< %s 128)) (= %s (ite (and (<= 65 %s) (<= %s 90)) (+ %s 32) %s)))", r.S, r.S, v.S, r.S, r.S, r.S, r.S))
			return v
		},
		"sync.(*RWMutex).Lock":    lockModel(0, 2),
		"sync.(*RWMutex).Unlock":  lockModel(2, 0),
		"sync.(*RWMutex).RLock":   lockModel(0, 1),
		"sync.(*RWMutex).RUnlock": lockModel(1, 0),
		"sync.(*Mutex).Lock":      lockModel(0, 2),
		"sync.(*Mutex).Unlock":    lockModel(2, 0),
	}
	for _, k := range []string{"sync.(*RWMutex).Lock", "sync.(*RWMutex).Unlock", "sync.(*RWMutex).RLock", "sync.(*RWMutex).RUnlock", "sync.(*Mutex).Lock", "sync.(*Mutex).Unlock"} {
		libTouches[k] = []string{"*LK"}
	}
	// strings.Join: some string (a function of its arguments; the text is not modelled)
	libModels["strings.Join"] = func(fr *frame, in ssa.Instruction, c *ssa.CallCommon, args []Val, st *State, reach string) Val {
		return fr.fc.fresh("joined", SString)
	}
	// WaitGroup bookkeeping: no effect on the modelled state (blocking is not modelled)
	for _, k := range []string{"sync.(*WaitGroup).Add", "sync.(*WaitGroup).Done"} {
		libModels[k] = func(fr *frame, in ssa.Instruction, c *ssa.CallCommon, args []Val, st *State, reach string) Val {
			return nil
		}
	}
	// Wait: the goroutines deferred to the join (channel consumers) run now, in spawn order
	libModels["sync.(*WaitGroup).Wait"] = func(fr *frame, in ssa.Instruction, c *ssa.CallCommon, args []Val, st *State, reach string) Val {
		pend := fr.pendingGo
		fr.pendingGo = nil
		for _, g := range pend {
			if !g.Block().Dominates(in.Block()) {
				fr.pendingGo = append(fr.pendingGo, g) // spawned on another path
				continue
			}
			fr.call(g, &g.Call, st, reach)
		}
		return nil
	}
	// functions that neither read nor write the modelled heap and whose result is left unconstrained
	for _, k := range []string{"time.Now", "time.(Time).Sub", "time.Since", ".(error).Error", "context.Background", "context.TODO", "context.(Context).Done", "context.(Context).Err", "(*github.com/google/badwolf/bql/planner/tracer.Arguments).String"} {
		libPure[k] = true
	}
}

func uniPred(name string, asciiFact func(r string) string) libModel {
	return func(fr *frame, in ssa.Instruction, c *ssa.CallCommon, args []Val, st *State, reach string) Val {
		fc := fr.fc
		fc.declareFun(name, []string{SInt}, SBool)
		r := tArg(args, 0)
		fc.fact(asciiFact(r.S))
		fc.fact(fmt.Sprintf("(=> (< %s 0) (not (%s %s)))", r.S, name, r.S))
		return Term{"(" + name + " " + r.S + ")", SBool}
	}
}

// lockModel: ghost lock mode per mutex field (0 free, 1 read-held by this goroutine, 2 write-held).
func lockModel(from, to int) libModel {
	return func(fr *frame, in ssa.Instruction, c *ssa.CallCommon, args []Val, st *State, reach string) Val {
		fc := fr.fc
		pf, ok := args[0].(*PtrField)
		if !ok {
			if _, isLocal := args[0].(Term); isLocal {
				// a mutex that is a local variable (shared only with the closures of this function):
				// no lock discipline is stated for it; mutual exclusion is not modelled
				return nil
			}
			fc.unsupported("mutex that is not a struct field in %s", fr.fn.Name())
			return nil
		}
		name := "LK$" + sanitize(shortType(pf.StructT)) + "$" + pf.Name
		a := fc.heapGet(st, name, arr(SInt, SInt))
		o := fc.oblig("lock", "lock."+pf.Name+".mode", eq(sel(a.S, pf.Base.S), fmt.Sprint(from)), reach, in.Pos(), nil)
		o.Src = fmt.Sprintf("mutex %s is in mode %d before this call (0 free, 1 read, 2 write)", pf.Name, from)
		fc.heapSet(st, name, Term{store(a.S, pf.Base.S, fmt.Sprint(to)), a.Sort})
		return nil
	}
}

// sprintfModel: fmt.Sprintf with a constant format made of %s %v %q %d verbs.
func sprintfModel(fr *frame, in ssa.Instruction, c *ssa.CallCommon, args []Val, st *State, reach string) Val {
	fc := fr.fc
	k, ok := c.Args[0].(*ssa.Const)
	va, ok2 := args[1].(*VarArgSlice)
	if !ok || !ok2 || k.Value == nil {
		return fc.fresh("sprintf", SString)
	}
	format := constant.StringVal(k.Value)
	var parts []string
	ai := 0
	lit := ""
	flush := func() {
		if lit != "" {
			parts = append(parts, smtString(lit))
			lit = ""
		}
	}
	for i := 0; i < len(format); i++ {
		ch := format[i]
		if ch != '%' {
			lit += string(ch)
			continue
		}
		i++
		if i >= len(format) {
			break
		}
		if format[i] == '%' {
			lit += "%"
			continue
		}
		// flags/width
		spec := ""
		for i < len(format) && strings.ContainsRune("0123456789.+- #", rune(format[i])) {
			spec += string(format[i])
			i++
		}
		verb := format[i]
		if ai >= len(va.Elems) {
			return fc.fresh("sprintf", SString)
		}
		a, isT := va.Elems[ai].(Term)
		ai++
		flush()
		if !isT {
			parts = append(parts, fc.fresh("fmtarg", SString).S)
			continue
		}
		if st := varargStaticType(c.Args[1], ai-1); st != nil {
			if t, ok := fc.fmtTyped(a, st, verb, spec); ok {
				parts = append(parts, t.S)
				continue
			}
		}
		parts = append(parts, fc.fmtArg(a, verb, spec).S)
	}
	flush()
	if len(parts) == 0 {
		return Term{"\"\"", SString}
	}
	if len(parts) == 1 {
		return Term{parts[0], SString}
	}
	return fc.define("sprintf", Term{"(str.++ " + strings.Join(parts, " ") + ")", SString})
}

// fmtArg: the text fmt produces for one boxed argument.
func (fc *FnCtx) fmtArg(a Term, verb byte, spec string) Term {
	fc.declareFun("fmt$any", []string{SAny, SInt}, SString)
	fc.declareFun("quote$", []string{SString}, SString)
	generic := Term{fmt.Sprintf("(fmt$any %s %d)", a.S, int(verb)), SString}
	if spec != "" {
		// flags/width/precision are part of the symbol's arguments: a changed format is a different text
		fc.declareFun("fmt$anys", []string{SAny, SInt, SString}, SString)
		generic = Term{fmt.Sprintf("(fmt$anys %s %d %s)", a.S, int(verb), smtString(spec)), SString}
	}
	if a.Sort != SAny {
		return generic
	}
	if t, ok := fc.fmtPadded(a, verb, spec); ok {
		return t
	}
	// booleans print as true/false under %v
	if verb == 'v' && spec == "" {
		fc.declareFun("fmt$ref", []string{SInt, SInt}, SString)
		return fc.define("fmt", Term{fmt.Sprintf("(ite ((_ is abool) %s) (ite (abval %s) \"true\" \"false\") (ite ((_ is astr) %s) (asval %s) %s))", a.S, a.S, a.S, a.S, generic.S), SString})
	}
	// pointers print through fmt$ref(tag, ref) under %s (the Stringer of the pointee, or <nil>)
	if verb == 's' && spec == "" {
		fc.declareFun("fmt$ref", []string{SInt, SInt}, SString)
		return fc.define("fmt", Term{fmt.Sprintf("(ite ((_ is astr) %s) (asval %s) (ite ((_ is aref) %s) (fmt$ref (atag_r %s) (arval %s)) %s))", a.S, a.S, a.S, a.S, a.S, generic.S), SString})
	}
	// string payloads print as themselves under %s/%v, quoted under %q
	switch verb {
	case 's', 'v':
		if spec == "" {
			return fc.define("fmt", Term{fmt.Sprintf("(ite ((_ is astr) %s) (asval %s) %s)", a.S, a.S, generic.S), SString})
		}
	case 'q':
		if spec == "" {
			return fc.define("fmt", Term{fmt.Sprintf("(ite ((_ is astr) %s) (quote$ (asval %s)) %s)", a.S, a.S, generic.S), SString})
		}
	}
	return generic
}

var _ = types.Typ

// regexpPattern finds the constant pattern compiled into the package-level regexp variable g.
func (e *Engine) regexpPattern(g *ssa.Global) (string, bool) {
	if _, bad := e.unstable[g]; bad {
		return "", false
	}
	pat, n := "", 0
	for f := range e.allFuncs {
		if f.Pkg != g.Pkg {
			continue
		}
		for _, b := range f.Blocks {
			for _, in := range b.Instrs {
				st, ok := in.(*ssa.Store)
				if !ok || st.Addr != g {
					continue
				}
				n++
				call, ok := st.Val.(*ssa.Call)
				if !ok {
					return "", false
				}
				cf := call.Call.StaticCallee()
				if cf == nil || fnKey(cf) != "regexp.MustCompile" {
					return "", false
				}
				k, ok := call.Call.Args[0].(*ssa.Const)
				if !ok || k.Value == nil {
					return "", false
				}
				pat = constant.StringVal(k.Value)
			}
		}
	}
	return pat, n == 1
}

func init() {
	defer func() { libModels["regexp.(*Regexp).FindStringIndex"] = libModels["regexp.(*Regexp).FindIndex"] }()
	libModels["regexp.(*Regexp).FindIndex"] = func(fr *frame, in ssa.Instruction, c *ssa.CallCommon, args []Val, st *State, reach string) Val {
		fc := fr.fc
		s := tArg(args, 1)
		r := fc.fresh("findindex", slc(SInt))
		a := fmt.Sprintf("(select (sarr %s) (soff %s))", r.S, r.S)
		b := fmt.Sprintf("(select (sarr %s) (+ (soff %s) 1))", r.S, r.S)
		fc.fact(fmt.Sprintf("(and (<= 0 (soff %s)) (or (= (slen %s) 0) (= (slen %s) 2)))", r.S, r.S, r.S))
		fc.fact(fmt.Sprintf("(=> (= (slen %s) 2) (and (<= 0 %s) (<= %s %s) (<= %s (str.len %s))))", r.S, a, a, b, b, s.S))
		pat := ""
		if ld, ok := c.Args[0].(*ssa.UnOp); ok {
			if g, ok := ld.X.(*ssa.Global); ok {
				pat, _ = fc.e.regexpPattern(g)
			}
		}
		at := func(i string) string { return fmt.Sprintf("(str.at %s %s)", s.S, i) }
		_ = at
		switch pat {
		case ">\\s+\"":
			fc.fact(fmt.Sprintf("(=> (= (slen %s) 2) (str.in_re (str.substr %s %s (- %s %s)) (re.++ (str.to_re \">\") (re.+ (re.union (re.range \"\\u{9}\" \"\\u{d}\") (str.to_re \" \"))) (str.to_re \"\"\"\"))))", r.S, s.S, a, b, a))
			fc.fact(fmt.Sprintf("(=> (= (slen %s) 0) (not (str.in_re %s (re.++ re.all (str.to_re \">\") (re.+ (re.union (re.range \"\\u{9}\" \"\\u{d}\") (str.to_re \" \"))) (str.to_re \"\"\"\") re.all))))", r.S, s.S))
			fc.trusted["regexp `>\\s+\"`: a match starts with '>' , ends with '\"', has only white space ([\\t\\n\\f\\r ]; Go regexp \\s) in between; no match means no such substring"] = true
		case "(]\\s+/)|(]\\s+\")":
			fc.fact(fmt.Sprintf("(=> (= (slen %s) 2) (str.in_re (str.substr %s %s (- %s %s)) (re.++ (str.to_re \"]\") (re.+ (re.union (re.range \"\\u{9}\" \"\\u{d}\") (str.to_re \" \"))) (re.union (str.to_re \"/\") (str.to_re \"\"\"\")))))", r.S, s.S, a, b, a))
			fc.fact(fmt.Sprintf("(=> (= (slen %s) 0) (not (str.in_re %s (re.++ re.all (str.to_re \"]\") (re.+ (re.union (re.range \"\\u{9}\" \"\\u{d}\") (str.to_re \" \"))) (re.union (str.to_re \"/\") (str.to_re \"\"\"\")) re.all))))", r.S, s.S))
			fc.trusted["regexp `(]\\s+/)|(]\\s+\")`: a match starts with ']', ends with '/' or '\"', has only white space ([\\t\\n\\f\\r ]; Go regexp \\s) in between; no match means no such substring"] = true
		default:
			fc.e.warn("%s: regexp with unknown pattern %q: only bounds assumed", fc.short, pat)
		}
		return r
	}
}

// bufio.Scanner: a ghost counter of remaining tokens ($scanRem) and a flag telling whether the
// scan stopped because of an error ($scanFailed). Declared as ghost vars in /verif/spec/io.spec.
func init() {
	libModels["bufio.NewScanner"] = func(fr *frame, in ssa.Instruction, c *ssa.CallCommon, args []Val, st *State, reach string) Val {
		fc := fr.fc
		r := fc.newRef(st, "scanner")
		rem := fc.fresh("scanrem", SInt)
		fc.fact("(<= 0 " + rem.S + ")")
		st.heap["GV$scanRem"] = rem
		st.heap["GV$scanFailed"] = Term{"false", SBool}
		return r
	}
	libModels["bufio.(*Scanner).Split"] = func(fr *frame, in ssa.Instruction, c *ssa.CallCommon, args []Val, st *State, reach string) Val {
		return nil
	}
	libModels["bufio.(*Scanner).Scan"] = func(fr *frame, in ssa.Instruction, c *ssa.CallCommon, args []Val, st *State, reach string) Val {
		fc := fr.fc
		rem := fc.heapGet(st, "GV$scanRem", SInt)
		ok := fc.fresh("scan_ok", SBool)
		failed := fc.fresh("scan_failed", SBool)
		fc.fact(fmt.Sprintf("(=> %s (> %s 0))", ok.S, rem.S))
		fc.fact(fmt.Sprintf("(=> %s (not %s))", ok.S, failed.S))
		st.heap["GV$scanRem"] = fc.define("scanrem", Term{fmt.Sprintf("(ite %s (- %s 1) %s)", ok.S, rem.S, rem.S), SInt})
		st.heap["GV$scanFailed"] = failed
		return ok
	}
	libModels["bufio.(*Scanner).Text"] = func(fr *frame, in ssa.Instruction, c *ssa.CallCommon, args []Val, st *State, reach string) Val {
		fc := fr.fc
		v := fc.fresh("scan_text", SString)
		fc.fact(fmt.Sprintf("(str.in_re %s (re.* (re.range \"\\u{0}\" \"\\u{ff}\")))", v.S))
		return v
	}
	libModels["bufio.(*Scanner).Err"] = func(fr *frame, in ssa.Instruction, c *ssa.CallCommon, args []Val, st *State, reach string) Val {
		fc := fr.fc
		failed := fc.heapGet(st, "GV$scanFailed", SBool)
		return maybeErr(fc, Term{not(failed.S), SBool})
	}
	// io.WriteString(w, s): either the whole string is written ($written counts the successful
	// writes) or an error is returned ($writeFailed is set). The writer itself is not modelled.
	libModels["io.WriteString"] = func(fr *frame, in ssa.Instruction, c *ssa.CallCommon, args []Val, st *State, reach string) Val {
		fc := fr.fc
		n := fc.heapGet(st, "GV$written", SInt)
		failed := fc.heapGet(st, "GV$writeFailed", SBool)
		ok := fc.fresh("write_ok", SBool)
		st.heap["GV$written"] = fc.define("written", Term{fmt.Sprintf("(ite %s (+ %s 1) %s)", ok.S, n.S, n.S), SInt})
		st.heap["GV$writeFailed"] = fc.define("writefailed", Term{fmt.Sprintf("(or %s (not %s))", failed.S, ok.S), SBool})
		return &Tuple{[]Val{Term{"(str.len " + tArg(args, 1).S + ")", SInt}, maybeErr(fc, ok)}}
	}
	libTouches["io.WriteString"] = []string{"GV$written", "GV$writeFailed"}
	libTouches["bufio.(*Scanner).Scan"] = []string{"GV$scanRem", "GV$scanFailed"}
	libTouches["bufio.NewScanner"] = []string{"GV$scanRem", "GV$scanFailed", "Alloc"}
}

func init() {
	// strings.IndexFunc(s, f): -1 or an index into s. (Which index is not modelled.)
	libModels["strings.IndexFunc"] = func(fr *frame, in ssa.Instruction, c *ssa.CallCommon, args []Val, st *State, reach string) Val {
		fc := fr.fc
		s := tArg(args, 0)
		r := fc.fresh("indexfunc", SInt)
		fc.fact(fmt.Sprintf("(and (<= (- 1) %s) (< %s (str.len %s)))", r.S, r.S, s.S))
		fc.fact(fmt.Sprintf("(=> (= (str.len %s) 0) (= %s (- 1)))", s.S, r.S))
		return r
	}
}

func init() {
	// uuid.UUID.String(): the canonical hex form, an injective function of the 16 bytes.
	libModels["github.com/pborman/uuid.(UUID).String"] = func(fr *frame, in ssa.Instruction, c *ssa.CallCommon, args []Val, st *State, reach string) Val {
		fc := fr.fc
		fc.declareFun("uuid$hex", []string{SString}, SString)
		if !fc.declSet["uuid$hex$inj"] {
			fc.declSet["uuid$hex$inj"] = true
			fc.decls = append(fc.decls, "(declare-fun uuid$unhex (String) String)")
			fc.decls = append(fc.decls, "(assert (forall ((x String)) (! (= (uuid$unhex (uuid$hex x)) x) :pattern ((uuid$hex x)))))")
		}
		return Term{"(uuid$hex " + tArg(args, 0).S + ")", SString}
	}
}

func init() {
	// sort.Strings(x) sorts in place. Slices are values in this model, so the only supported shape is
	// `sort.Strings(*p)`: the sorted slice is written back to *p. Contract (assumed): same length, a
	// permutation (every old element occurs in the result and vice versa), ascending order.
	libModels["sort.Strings"] = func(fr *frame, in ssa.Instruction, c *ssa.CallCommon, args []Val, st *State, reach string) Val {
		fc := fr.fc
		ld, ok := c.Args[0].(*ssa.UnOp)
		if !ok {
			fc.unsupported("sort.Strings on a slice that is not loaded from a pointer (in-place mutation of slice values is not modelled)")
			return nil
		}
		old := tArg(args, 0)
		nw := fc.fresh("sorted", old.Sort)
		at := func(s Term, j string) string { return fc.slcAt(s, j).S }
		fc.fact(fmt.Sprintf("(and (= (soff %s) 0) (= (slen %s) (slen %s)))", nw.S, nw.S, old.S))
		fc.fact(fmt.Sprintf("(forall ((j Int)) (! (=> (and (<= 0 j) (< j (slen %s))) (exists ((i Int)) (and (<= 0 i) (< i (slen %s)) (= %s %s)))) :pattern (%s)))", nw.S, old.S, at(nw, "j"), at(old, "i"), at(nw, "j")))
		fc.fact(fmt.Sprintf("(forall ((i Int)) (! (=> (and (<= 0 i) (< i (slen %s))) (exists ((j Int)) (and (<= 0 j) (< j (slen %s)) (= %s %s)))) :pattern (%s)))", old.S, nw.S, at(nw, "j"), at(old, "i"), at(old, "i")))
		if !fc.opaque() {
			fc.fact(fmt.Sprintf("(forall ((i Int) (j Int)) (! (=> (and (<= 0 i) (< i j) (< j (slen %s))) (str.<= %s %s)) :pattern (%s %s)))", nw.S, at(nw, "i"), at(nw, "j"), at(nw, "i"), at(nw, "j")))
		}
		// write back
		p := fr.val(ld.X)
		switch pt := p.(type) {
		case Term:
			fr.storeRef(st, pt, ptrElem(ld.X.Type()), nw, reach, in.Pos())
		case *PtrField:
			a := fc.heapGet(st, pt.Arr, arr(SInt, pt.Sort))
			fr.frameCheck(st, pt.Arr, pt.Base, reach, in.Pos())
			fc.heapSet(st, pt.Arr, Term{store(a.S, pt.Base.S, nw.S), a.Sort})
		default:
			fc.unsupported("sort.Strings write-back through %T", p)
		}
		return nil
	}
	libTouches["sort.Strings"] = []string{"D$__string"}
}

// ---------------------------------------------------------------- C06: hashing the values
//
// bytes.Buffer: ghost content BUF[ref] (a byte string). sync.Pool: Get returns some non-nil
// reference of the pool's element type whose content is arbitrary (a recycled buffer) but satisfies
// the pool invariant declared with `//@ pool <var> ...`; Put must re-establish that invariant.
// uuid.NewSHA1(uuid.NIL, d) = sha16(d): 16 bytes; SHA-1 collision freedom is the axiom sha16-injective
// in /verif/spec/uuid.spec (assumed, listed).

func bufArr(fc *FnCtx, st *State) Term { return fc.heapGet(st, "BUF", arr(SInt, SString)) }

func refArg(args []Val, i int) (Term, bool) {
	if i < len(args) {
		if t, ok := args[i].(Term); ok && t.Sort == SInt {
			return t, true
		}
	}
	return Term{}, false
}

// poolElemType: the type of the values a package-level sync.Pool holds, determined from every Put.
func (e *Engine) poolElemType(g *ssa.Global) types.Type {
	var t types.Type
	for f := range e.allFuncs {
		if f.Pkg != g.Pkg {
			continue
		}
		for _, b := range f.Blocks {
			for _, in := range b.Instrs {
				var cc *ssa.CallCommon
				switch i := in.(type) {
				case *ssa.Call:
					cc = &i.Call
				case *ssa.Defer:
					cc = &i.Call
				}
				if cc == nil || cc.StaticCallee() == nil || fnKey(cc.StaticCallee()) != "sync.(*Pool).Put" || len(cc.Args) < 2 || cc.Args[0] != g {
					continue
				}
				mi, ok := cc.Args[1].(*ssa.MakeInterface)
				if !ok {
					return nil
				}
				if t == nil {
					t = mi.X.Type()
				} else if !types.Identical(t, mi.X.Type()) {
					return nil
				}
			}
		}
	}
	return t
}

func varintLen(x string) string {
	// number of bytes binary.PutVarint writes for the int64 x (zig-zag, 7 bits per byte)
	out := "10"
	for k := 9; k >= 1; k-- {
		lim := "1"
		for i := 0; i < 7*k-1; i++ {
			lim = "(* 2 " + lim + ")"
		}
		out = fmt.Sprintf("(ite (and (<= (- %s) %s) (< %s %s)) %d %s)", lim, x, x, lim, k, out)
	}
	return out
}

func init() {
	libModels["sync.(*Pool).Get"] = func(fr *frame, in ssa.Instruction, c *ssa.CallCommon, args []Val, st *State, reach string) Val {
		fc := fr.fc
		g, ok := c.Args[0].(*ssa.Global)
		if !ok {
			fc.unsupported("sync.Pool that is not a package-level variable")
			return fc.fresh("pool_get", SAny)
		}
		et := fc.e.poolElemType(g)
		if et == nil {
			fc.unsupported("sync.Pool %s: element type not uniform", g.Name())
			return fc.fresh("pool_get", SAny)
		}
		// an object taken from a pool is exclusively owned by the caller until it is put back: no
		// reference visible to the caller aliases it, so it is treated like a fresh allocation whose
		// content is arbitrary (recycled) but satisfies the pool invariant
		r := fc.newRef(st, "pooled")
		// pool invariant
		for _, pi := range fc.e.specs.Pools {
			if pi.Pkg == g.Pkg.Pkg.Path() && pi.Var == g.Name() {
				env := &Env{fc: fc, pkg: pi.Pkg, vars: map[string]CVal{"x": {r, et}}, bound: map[string]CVal{}, st: st, old: st}
				t, err := env.evalBool(pi.Inv)
				if err != nil {
					fc.unsupported("pool invariant of %s: %v", g.Name(), err)
				} else {
					fc.factIf(reach, t.S)
					fc.trusted["pool invariant of "+shortKey(pi.Pkg)+"."+pi.Var+": "+pi.Src+" (assumed at Get, checked at every Put)"] = true
				}
			}
		}
		return fc.e.box(r, et)
	}
	libModels["sync.(*Pool).Put"] = func(fr *frame, in ssa.Instruction, c *ssa.CallCommon, args []Val, st *State, reach string) Val {
		fc := fr.fc
		g, ok := c.Args[0].(*ssa.Global)
		if !ok {
			return nil
		}
		et := fc.e.poolElemType(g)
		x, isT := args[1].(Term)
		if et == nil || !isT {
			return nil
		}
		for _, pi := range fc.e.specs.Pools {
			if pi.Pkg == g.Pkg.Pkg.Path() && pi.Var == g.Name() {
				env := &Env{fc: fc, pkg: pi.Pkg, vars: map[string]CVal{"x": {fc.e.unbox(x, et), et}}, bound: map[string]CVal{}, st: st, old: st}
				t, err := env.evalBool(pi.Inv)
				if err == nil {
					o := fc.oblig("pre", "pool."+g.Name()+".put-invariant", t.S, reach, in.Pos(), nil)
					o.Src = pi.Src
				}
			}
		}
		return nil
	}
	bufWrite := func(fr *frame, in ssa.Instruction, c *ssa.CallCommon, args []Val, st *State, reach string) Val {
		fc := fr.fc
		r, ok := refArg(args, 0)
		if !ok {
			fc.unsupported("bytes.Buffer receiver")
			return nil
		}
		fr.safety("nil", not(eq(r.S, "0")), reach, in.Pos(), "nil *bytes.Buffer")
		p := tArg(args, 1)
		a := bufArr(fc, st)
		fc.heapSet(st, "BUF", Term{store(a.S, r.S, "(str.++ "+sel(a.S, r.S)+" "+p.S+")"), a.Sort})
		return &Tuple{[]Val{Term{"(str.len " + p.S + ")", SInt}, Term{"anil", SAny}}}
	}
	libModels["bytes.(*Buffer).Write"] = bufWrite
	libModels["bytes.(*Buffer).WriteString"] = bufWrite
	libModels["bytes.(*Buffer).Reset"] = func(fr *frame, in ssa.Instruction, c *ssa.CallCommon, args []Val, st *State, reach string) Val {
		fc := fr.fc
		r, ok := refArg(args, 0)
		if !ok {
			fc.unsupported("bytes.Buffer receiver")
			return nil
		}
		fr.safety("nil", not(eq(r.S, "0")), reach, in.Pos(), "nil *bytes.Buffer")
		a := bufArr(fc, st)
		fc.heapSet(st, "BUF", Term{store(a.S, r.S, "\"\""), a.Sort})
		return nil
	}
	bufRead := func(fr *frame, in ssa.Instruction, c *ssa.CallCommon, args []Val, st *State, reach string) Val {
		fc := fr.fc
		r, ok := refArg(args, 0)
		if !ok {
			fc.unsupported("bytes.Buffer receiver")
			return fc.fresh("buf", SString)
		}
		fr.safety("nil", not(eq(r.S, "0")), reach, in.Pos(), "nil *bytes.Buffer")
		return fc.define("bufbytes", Term{sel(bufArr(fc, st).S, r.S), SString})
	}
	// bytes.NewBufferString(s) / bytes.NewBuffer(b): a fresh buffer whose content is the argument
	newBuf := func(fr *frame, in ssa.Instruction, c *ssa.CallCommon, args []Val, st *State, reach string) Val {
		fc := fr.fc
		r := fc.newRef(st, "buffer")
		a := bufArr(fc, st)
		fc.heapSet(st, "BUF", Term{store(a.S, r.S, tArg(args, 0).S), a.Sort})
		return r
	}
	libModels["bytes.NewBufferString"] = newBuf
	libModels["bytes.(*Buffer).Bytes"] = bufRead
	libModels["bytes.(*Buffer).String"] = bufRead
	for _, k := range []string{"bytes.(*Buffer).Write", "bytes.(*Buffer).WriteString", "bytes.(*Buffer).Reset"} {
		libTouches[k] = []string{"BUF"}
	}
	libModels["encoding/binary.PutVarint"] = func(fr *frame, in ssa.Instruction, c *ssa.CallCommon, args []Val, st *State, reach string) Val {
		fc := fr.fc
		buf, x := tArg(args, 0), tArg(args, 1)
		n := fc.define("varintlen", Term{varintLen(x.S), SInt})
		fr.safety("putvarint", fmt.Sprintf("(>= (str.len %s) %s)", buf.S, n.S), reach, in.Pos(), "binary.PutVarint: buffer too small (panics)")
		fc.declareFun("varint$bytes", []string{SInt}, SString)
		fc.fact(fmt.Sprintf("(= (str.len (varint$bytes %s)) %s)", x.S, n.S))
		nb := fc.define("putvarint", Term{fmt.Sprintf("(str.++ (varint$bytes %s) (str.substr %s %s (- (str.len %s) %s)))", x.S, buf.S, n.S, buf.S, n.S), SString})
		if _, isSlice := c.Args[0].(*ssa.Slice); isSlice {
			fr.vals[c.Args[0]] = nb // the only alias of a freshly made buffer: rebind (in-place write)
		} else {
			fc.unsupported("binary.PutVarint into a buffer that is not a freshly made slice")
		}
		return n
	}
	libModels["encoding/binary.(littleEndian).PutUint64"] = func(fr *frame, in ssa.Instruction, c *ssa.CallCommon, args []Val, st *State, reach string) Val {
		fc := fr.fc
		buf, x := tArg(args, 1), tArg(args, 2)
		fr.safety("putuint64", fmt.Sprintf("(>= (str.len %s) 8)", buf.S), reach, in.Pos(), "PutUint64: buffer shorter than 8 bytes (panics)")
		fc.declareFun("le64$bytes", []string{SInt}, SString)
		fc.fact(fmt.Sprintf("(= (str.len (le64$bytes %s)) 8)", x.S))
		nb := fc.define("putuint64", Term{fmt.Sprintf("(str.++ (le64$bytes %s) (str.substr %s 8 (- (str.len %s) 8)))", x.S, buf.S, buf.S), SString})
		if _, isSlice := c.Args[1].(*ssa.Slice); isSlice {
			fr.vals[c.Args[1]] = nb
		} else {
			fc.unsupported("PutUint64 into a buffer that is not a freshly made slice")
		}
		return nil
	}
	libModels["math.Float64bits"] = func(fr *frame, in ssa.Instruction, c *ssa.CallCommon, args []Val, st *State, reach string) Val {
		fc := fr.fc
		fc.declareFun("f64$bits", []string{SF64}, SInt)
		v := Term{"(f64$bits " + tArg(args, 0).S + ")", SInt}
		fc.fact(fmt.Sprintf("(and (<= 0 %s) (<= %s 18446744073709551615))", v.S, v.S))
		return v
	}
	libModels["github.com/pborman/uuid.NewSHA1"] = func(fr *frame, in ssa.Instruction, c *ssa.CallCommon, args []Val, st *State, reach string) Val {
		fc := fr.fc
		data := tArg(args, 1)
		isNil := false
		if ld, ok := c.Args[0].(*ssa.UnOp); ok {
			if g, ok := ld.X.(*ssa.Global); ok && g.Name() == "NIL" && g.Pkg.Pkg.Path() == "github.com/pborman/uuid" {
				isNil = true
			}
		}
		var v Term
		if isNil {
			fc.declareFun("sha16$", []string{SString}, SString)
			v = Term{"(sha16$ " + data.S + ")", SString}
		} else {
			fc.declareFun("sha16x$", []string{SString, SString}, SString)
			v = Term{"(sha16x$ " + tArg(args, 0).S + " " + data.S + ")", SString}
		}
		v = fc.define("sha", v)
		fc.fact(fmt.Sprintf("(= (str.len %s) 16)", v.S))
		return v
	}
	libModels["github.com/pborman/uuid.Equal"] = func(fr *frame, in ssa.Instruction, c *ssa.CallCommon, args []Val, st *State, reach string) Val {
		return Term{eq(tArg(args, 0).S, tArg(args, 1).S), SBool}
	}
}

func init() {
	libModels["strconv.Itoa"] = func(fr *frame, in ssa.Instruction, c *ssa.CallCommon, args []Val, st *State, reach string) Val {
		fc := fr.fc
		fc.declareFun("itoa$", []string{SInt}, SString)
		return Term{"(itoa$ " + tArg(args, 0).S + ")", SString}
	}
}

func trimFacts(fc *FnCtx, s, r, i Term) {
	fc.fact(fmt.Sprintf("(and (<= 0 %s) (<= (+ %s (str.len %s)) (str.len %s)) (= %s (str.substr %s %s (str.len %s))))", i.S, i.S, r.S, s.S, r.S, s.S, i.S, r.S))
	fc.fact(fmt.Sprintf("(str.in_re (str.substr %s 0 %s) (re.* ws$re))", s.S, i.S))
	fc.fact(fmt.Sprintf("(str.in_re (str.substr %s (+ %s (str.len %s)) (str.len %s)) (re.* ws$re))", s.S, i.S, r.S, s.S))
	fc.fact(fmt.Sprintf("(not (str.in_re %s (re.++ ws$re re.all)))", r.S))
	fc.fact(fmt.Sprintf("(not (str.in_re %s (re.++ re.all ws$re)))", r.S))
}

// varargStaticType: the static Go type of the k-th variadic argument (before it was boxed into any).
func varargStaticType(v ssa.Value, k int) types.Type {
	sl, ok := v.(*ssa.Slice)
	if !ok {
		return nil
	}
	al, ok := sl.X.(*ssa.Alloc)
	if !ok {
		return nil
	}
	for _, ref := range *al.Referrers() {
		ia, ok := ref.(*ssa.IndexAddr)
		if !ok {
			continue
		}
		c, ok := ia.Index.(*ssa.Const)
		if !ok || int(c.Int64()) != k {
			continue
		}
		for _, r2 := range *ia.Referrers() {
			if st, ok := r2.(*ssa.Store); ok {
				switch mi := st.Val.(type) {
				case *ssa.MakeInterface:
					return mi.X.Type()
				case *ssa.ChangeInterface:
					return mi.X.Type()
				}
				return st.Val.Type()
			}
		}
	}
	return nil
}

func hasStringMethod(t types.Type) bool {
	ms := types.NewMethodSet(t)
	for i := 0; i < ms.Len(); i++ {
		m := ms.At(i).Obj()
		if m.Name() == "String" {
			if sig, ok := m.Type().(*types.Signature); ok && sig.Params().Len() == 0 && sig.Results().Len() == 1 {
				return true
			}
		}
	}
	return false
}

// fmtTyped: the text fmt produces under %v / %s / %d / %q for an argument of known static type.
func (fc *FnCtx) fmtTyped(a Term, t types.Type, verb byte, spec string) (Term, bool) {
	if spec != "" {
		return Term{}, false
	}
	if _, isIface := t.Underlying().(*types.Interface); isIface {
		// dynamic type unknown statically: dispatch on the tag for the value kinds literals hold
		if verb != 'v' {
			return Term{}, false
		}
		fc.declareFun("itoa$", []string{SInt}, SString)
		fc.declareFun("fmtfloat$", []string{SF64}, SString)
		fc.declareFun("fmtbytes$", []string{SString}, SString)
		fc.declareFun("fmt$any", []string{SAny, SInt}, SString)
		bt := fc.e.typeTag(types.NewSlice(types.Typ[types.Uint8]))
		return fc.define("fmt", Term{fmt.Sprintf("(ite ((_ is abool) %s) (ite (abval %s) \"true\" \"false\") (ite ((_ is aint) %s) (itoa$ (aival %s)) (ite ((_ is af64) %s) (fmtfloat$ (afval %s)) (ite ((_ is astr) %s) (ite (= (atag_s %s) %d) (fmtbytes$ (asval %s)) (asval %s)) (fmt$any %s %d)))))", a.S, a.S, a.S, a.S, a.S, a.S, a.S, a.S, bt, a.S, a.S, a.S, int(verb)), SString}), true
	}
	if hasStringMethod(t) && (verb == 'v' || verb == 's') {
		// a Stringer: the text is what its String method returns: strof$T(value)
		name := "strof$" + sanitize(shortType(t))
		srt := fc.e.sortOf(t)
		fc.declareFun(name, []string{srt}, SString)
		return Term{"(" + name + " " + fc.e.unbox(a, t).S + ")", SString}, true
	}
	b, ok := t.Underlying().(*types.Basic)
	if !ok {
		return Term{}, false
	}
	switch {
	case b.Info()&types.IsString != 0:
		if verb == 'q' {
			fc.declareFun("quote$", []string{SString}, SString)
			return Term{"(quote$ (asval " + a.S + "))", SString}, true
		}
		if verb == 's' || verb == 'v' {
			return Term{"(asval " + a.S + ")", SString}, true
		}
	case b.Info()&types.IsBoolean != 0:
		if verb == 'v' || verb == 't' {
			return Term{"(ite (abval " + a.S + ") \"true\" \"false\")", SString}, true
		}
	case b.Info()&types.IsInteger != 0:
		if verb == 'v' || verb == 'd' {
			fc.declareFun("itoa$", []string{SInt}, SString)
			return Term{"(itoa$ (aival " + a.S + "))", SString}, true
		}
	case b.Info()&types.IsFloat != 0:
		if verb == 'v' {
			fc.declareFun("fmtfloat$", []string{SF64}, SString)
			return Term{"(fmtfloat$ (afval " + a.S + "))", SString}, true
		}
	}
	return Term{}, false
}

// fmtPadded: %0Nd applied to an integer value: the decimal text, zero-padded to width N with the
// sign (if any) in front - exactly what fmt prints for int64 (defined, not assumed: str.from_int is
// the decimal notation of a non-negative integer). Other dynamic types fall back to the generic symbol.
func (fc *FnCtx) fmtPadded(a Term, verb byte, spec string) (Term, bool) {
	if verb != 'd' || len(spec) < 2 || spec[0] != '0' || a.Sort != SAny {
		return Term{}, false
	}
	n := 0
	for _, ch := range spec[1:] {
		if ch < '0' || ch > '9' {
			return Term{}, false
		}
		n = n*10 + int(ch-'0')
	}
	if n <= 0 || n > 64 {
		return Term{}, false
	}
	name := fmt.Sprintf("pad$d%d", n)
	if !fc.declSet[name] {
		fc.declSet[name] = true
		zeros := smtString(strings.Repeat("0", n))
		fc.decls = append(fc.decls, fmt.Sprintf("(define-fun %s ((x Int)) String (ite (>= x 0) (str.++ (str.substr %s 0 (- %d (str.len (str.from_int x)))) (str.from_int x)) (str.++ \"-\" (str.substr %s 0 (- %d (str.len (str.from_int (- x))))) (str.from_int (- x)))))", name, zeros, n, zeros, n-1))
	}
	fc.declareFun("fmt$anys", []string{SAny, SInt, SString}, SString)
	generic := fmt.Sprintf("(fmt$anys %s %d %s)", a.S, int(verb), smtString(spec))
	return fc.define("fmt", Term{fmt.Sprintf("(ite ((_ is aint) %s) (%s (aival %s)) %s)", a.S, name, a.S, generic), SString}), true
}

// permTerm: perm$S(a, b): slice b is a permutation of slice a. An uninterpreted predicate with its
// consequences as axioms: equal lengths, and a witness index function that is injective and maps
// every position of a to a position of b holding the same element (so every element of a occurs in
// b with at least its multiplicity; with equal lengths: exactly). Reflexive and transitive.
func (fc *FnCtx) permTerm(a, b Term) string {
	es := sortArgs(a.Sort)[0]
	p := "perm$" + sanitize(es)
	if !fc.declSet[p] {
		fc.declSet[p] = true
		S := a.Sort
		at := func(s, j string) string { return fc.slcAt(Term{s, S}, j).S }
		w := "permidx$" + sanitize(es)
		fc.decls = append(fc.decls,
			fmt.Sprintf("(declare-fun %s (%s %s) Bool)", p, S, S),
			fmt.Sprintf("(declare-fun %s (%s %s Int) Int)", w, S, S),
			fmt.Sprintf("(assert (forall ((a %s)) (! (%s a a) :pattern ((%s a a)))))", S, p, p),
			fmt.Sprintf("(assert (forall ((a %s) (b %s) (c %s)) (! (=> (and (%s a b) (%s b c)) (%s a c)) :pattern ((%s a b) (%s b c)))))", S, S, S, p, p, p, p, p),
			fmt.Sprintf("(assert (forall ((a %s) (b %s)) (! (=> (%s a b) (= (slen a) (slen b))) :pattern ((%s a b)))))", S, S, p, p),
			fmt.Sprintf("(assert (forall ((a %s) (b %s) (i Int)) (! (=> (and (%s a b) (<= 0 i) (< i (slen a))) (and (<= 0 (%s a b i)) (< (%s a b i) (slen b)) (= %s %s))) :pattern ((%s a b) %s))))", S, S, p, w, w, at("b", "("+w+" a b i)"), at("a", "i"), p, at("a", "i")),
			fmt.Sprintf("(assert (forall ((a %s) (b %s) (i Int) (j Int)) (! (=> (and (%s a b) (<= 0 i) (< i j) (< j (slen a))) (not (= (%s a b i) (%s a b j)))) :pattern ((%s a b i) (%s a b j)))))", S, S, p, w, w, w, w),
			// and the inverse index map: every element of b is an element of a
			fmt.Sprintf("(declare-fun %sinv (%s %s Int) Int)", w, S, S),
			fmt.Sprintf("(assert (forall ((a %s) (b %s) (k Int)) (! (=> (and (%s a b) (<= 0 k) (< k (slen b))) (and (<= 0 (%sinv a b k)) (< (%sinv a b k) (slen a)) (= %s %s))) :pattern ((%s a b) %s))))", S, S, p, w, w, at("a", "("+w+"inv a b k)"), at("b", "k"), p, at("b", "k")))
		fc.trusted["perm(a, b) is an uninterpreted predicate constrained only by consequences of 'b is a permutation of a' (equal length, injective element-preserving index map from a to b, an element-preserving index map from b to a, reflexive, transitive); it is introduced only by the assumed contract of sort.Sort"] = true
	}
	return fmt.Sprintf("(%s %s %s)", p, a.S, b.S)
}

// context.Context.Err, beyond being free of side effects: "After Err returns a non-nil error,
// successive calls to Err return the same error" (documented contract of the interface, trusted).
// Each call is related to the (at most eight) calls before it in the same verification condition.
type ctxErrCall struct{ ctx, res, reach string }

func init() {
	libModels["context.(Context).Err"] = func(fr *frame, in ssa.Instruction, c *ssa.CallCommon, args []Val, st *State, reach string) Val {
		fc := fr.fc
		r := fc.fresh("r_context__Context__Err", SAny)
		ctx, ok := args[0].(Term)
		if !ok {
			return r
		}
		prev := fc.ctxErrCalls
		if len(prev) > 8 {
			prev = prev[len(prev)-8:]
		}
		for _, p := range prev {
			fc.fact(fmt.Sprintf("(=> (and %s %s (= %s %s) (not (= %s anil))) (= %s %s))", p.reach, reach, p.ctx, ctx.S, p.res, r.S, p.res))
		}
		fc.ctxErrCalls = append(fc.ctxErrCalls, ctxErrCall{ctx.S, r.S, reach})
		return r
	}
}
