package main

import (
	"encoding/json"
	"regexp"
	"flag"
	"fmt"
	"os"
	"path/filepath"
	"sort"
	"strconv"
	"strings"
	"time"
)

type KnownFinding struct {
	Property   string            `json:"property"`
	Obligation string            `json:"obligation"` // exact name or prefix ending with *
	Exclude    string            `json:"exclude"`    // contract expression over the function's parameters; inputs satisfying it are the known finding
	Witness    map[string]string `json:"witness,omitempty"`
	What       string            `json:"what"`
	Status     string            `json:"status,omitempty"` // "open" (default) or "fixed: <commit>"
}

type kfFile struct {
	Findings []KnownFinding `json:"findings"`
	Fixed    []string       `json:"fixed"`
}

func loadKnown() []KnownFinding {
	b, err := os.ReadFile(filepath.Join(verifRoot(), "known_findings.json"))
	if err != nil {
		return nil
	}
	var f kfFile
	if err := json.Unmarshal(b, &f); err != nil {
		fmt.Fprintln(os.Stderr, "known_findings.json:", err)
		os.Exit(2)
	}
	return f.Findings
}

func matchOb(pattern, name string) bool {
	if !strings.Contains(pattern, "*") {
		return pattern == name
	}
	parts := strings.Split(pattern, "*")
	re := "^"
	for i, p := range parts {
		if i > 0 {
			re += ".*"
		}
		re += regexp.QuoteMeta(p)
	}
	re += "$"
	ok, _ := regexp.MatchString(re, name)
	return ok
}

func hasProp(props []string, id string) bool {
	for _, p := range props {
		if p == id {
			return true
		}
	}
	return false
}

type obRecord struct {
	Name    string   `json:"name"`
	Kind    string   `json:"kind"`
	Status  string   `json:"status"`
	Solver  string   `json:"solver,omitempty"`
	Seconds float64  `json:"seconds"`
	Where   string   `json:"where,omitempty"`
	Src     string   `json:"src,omitempty"`
	Agree   []string `json:"also_unsat_by,omitempty"`
}

// okResult: an obligation is discharged on unsat. A cover (vacuity guard) fails only if the
// precondition is refuted (unsat): with quantified preconditions satisfiability itself is usually
// not decidable for the solvers, so sat, unknown and timeout all mean "not shown vacuous".
func okResult(o *Oblig) bool {
	if o.Cover {
		return o.result.Status == "sat" || o.result.Status == "unknown" || o.result.Status == "timeout"
	}
	return o.result.Status == "unsat"
}

func checkMain(args []string) int {
	fs := flag.NewFlagSet("check", flag.ExitOnError)
	tier := fs.String("tier", "", "quick|thorough")
	keepAll := fs.Bool("keep", false, "keep all smt files")
	var id string
	if len(args) > 0 && !strings.HasPrefix(args[0], "-") {
		id = args[0]
		args = args[1:]
	}
	fs.Parse(args)
	if id == "" {
		id = fs.Arg(0)
	}
	if *tier == "" {
		*tier = os.Getenv("VERIF_TIER")
	}
	if *tier == "" {
		*tier = "quick"
	}
	seed, _ := strconv.Atoi(os.Getenv("VERIF_SEED"))
	t0 := time.Now()
	root := verifRoot()
	evPath := filepath.Join(root, "evidence", id+".json")
	os.MkdirAll(filepath.Dir(evPath), 0o755)
	os.Remove(evPath)
	os.RemoveAll(filepath.Join(root, "replays", id))
	e, err := LoadEngine(repoRoot(), root+"/spec")
	if err != nil {
		// the tree does not load (does not compile): report as broken binding, not as a pass
		fmt.Println("gowp: cannot load /repo:", err)
		rp := writeReplay(root, id, "binding.load", map[string]interface{}{"obligation": "binding.load", "error": err.Error()})
		fmt.Printf("VIOLATION property=%s replay=%s obligation=binding.load no-failing-input-found\n", id, rp)
		return 1
	}
	loadS := time.Since(t0).Seconds()
	timeout := 10 * time.Second
	thorough := *tier == "thorough"
	if thorough {
		timeout = 60 * time.Second
	}
	work, _ := os.MkdirTemp("", "gowp-"+id+"-")
	defer func() {
		if !*keepAll {
			os.RemoveAll(work)
		}
	}()

	// ---- collect obligations
	var obs []*Oblig
	var fcs []*FnCtx
	var keys []string
	for k, c := range e.specs.Funcs {
		if hasProp(c.Props, id) && !c.Trusted && !c.NoBody {
			keys = append(keys, k)
		}
	}
	sort.Strings(keys)
	for _, k := range keys {
		fc := e.VerifyFunc(e.specs.Funcs[k])
		// obligations carrying their own property list count only for those properties
		var keep []*Oblig
		for _, o := range fc.obligs {
			if o.OwnProps && !hasProp(o.Props, id) {
				continue
			}
			keep = append(keep, o)
		}
		fc.obligs = keep
		fcs = append(fcs, fc)
		obs = append(obs, fc.obligs...)
	}
	var axioms []*Lemma
	for _, l := range e.specs.Lemmas {
		if l.Axiom {
			axioms = append(axioms, l)
		}
	}
	nLemmas := 0
	// lemmas of this property, plus (transitively) every lemma they use
	want := map[string]bool{}
	for _, l := range e.specs.Lemmas {
		if !l.Axiom && hasProp(l.Props, id) {
			want[l.Name] = true
		}
	}
	for _, fc := range fcs {
		if fc.c != nil {
			for _, n := range strings.Fields(fc.c.Opts["axioms"]) {
				want[n] = true
			}
		}
	}
	for changed := true; changed; {
		changed = false
		for _, l := range e.specs.Lemmas {
			if l.Axiom || !want[l.Name] {
				continue
			}
			for _, u := range l.Using {
				if !want[u] {
					for _, l2 := range e.specs.Lemmas {
						if l2.Name == u && !l2.Axiom {
							want[u] = true
							changed = true
						}
					}
				}
			}
		}
	}
	for _, l := range e.specs.Lemmas {
		if !l.Axiom && want[l.Name] {
			fc := e.VerifyLemma(l, axioms)
			fcs = append(fcs, fc)
			obs = append(obs, fc.obligs...)
			nLemmas++
		}
	}
	extra := e.extraChecks(id)
	obs = append(obs, extra...)
	if len(obs) == 0 {
		fmt.Printf("gowp: property %s has no obligations: broken check\n", id)
		return 2
	}
	known := loadKnown()
	// obligations for which a known finding is listed get a short first attempt: they are expected to
	// fail and are then re-tried under the listed exclusions
	for _, o := range obs {
		for _, k := range known {
			if hasProp(strings.Split(k.Property, ","), id) && matchOb(k.Obligation, o.Name) {
				o.Quick = true
			}
		}
	}
	SolveFns(fcs, extra, work, timeout, thorough)

	// a lemma proved "using" another lemma stands only if that lemma is itself discharged in this run
	lemmaOK := map[string]bool{}
	for _, o := range obs {
		if o.Lemma != nil {
			lemmaOK[o.Lemma.Name] = okResult(o)
		}
	}
	for _, o := range obs {
		if o.Lemma == nil || !okResult(o) {
			continue
		}
		for _, u := range o.Lemma.Using {
			for _, l2 := range e.specs.Lemmas {
				if l2.Name == u && !l2.Axiom {
					if ok, seen := lemmaOK[u]; !seen || !ok {
						o.result.Status = "depends-on-undischarged-lemma:" + u
					}
				}
			}
		}
	}
	// ---- triage
	var records []obRecord
	var samples []interface{}
	discharged, underExcl := 0, 0
	violations := 0
	var kfLines []string
	var kfRepro []string
	solverTime := 0.0
	bySolver := map[string]int{}
	exit := 0
	for _, o := range obs {
		r := o.result
		solverTime += r.Seconds
		rec := obRecord{Name: o.Name, Kind: o.Kind, Status: r.Status, Solver: r.Solver, Seconds: round3(r.Seconds), Src: o.Src, Agree: r.Agree}
		if o.Pos.IsValid() {
			rec.Where = fmt.Sprintf("%s:%d", shortFile(o.Pos.Filename), o.Pos.Line)
		}
		if okResult(o) {
			discharged++
			bySolver[r.Solver]++
			records = append(records, rec)
			continue
		}
		// known finding?
		var entries []KnownFinding
		for _, k := range known {
			if hasProp(strings.Split(k.Property, ","), id) && matchOb(k.Obligation, o.Name) && !strings.HasPrefix(k.Status, "fixed") {
				entries = append(entries, k)
			}
		}
		if len(entries) > 0 && !o.Cover {
			if ok, why := e.retryWithExclusions(o, entries, work, timeout); ok {
				underExcl++
				discharged++
				rec.Status = "unsat-under-known-finding-exclusion"
				records = append(records, rec)
				for _, k := range entries {
					line := fmt.Sprintf("KNOWN-FINDING: property=%s %s: %s", id, k.Obligation, k.What)
					kfLines = append(kfLines, line)
					kfRepro = append(kfRepro, o.Name+": "+k.What)
				}
				continue
			} else if why != "" {
				rec.Src += " [exclusion retry: " + why + "]"
			}
		}
		records = append(records, rec)
		violations++
		exit = 1
		rp, confirmed := e.replayObligation(root, id, o)
		if confirmed {
			fmt.Printf("VIOLATION property=%s replay=%s obligation=%s\n", id, rp, o.Name)
		} else {
			fmt.Printf("VIOLATION property=%s replay=%s obligation=%s no-failing-input-found\n", id, rp, o.Name)
		}
	}
	seen := map[string]bool{}
	for _, l := range kfLines {
		if !seen[l] {
			fmt.Println(l)
			seen[l] = true
		}
	}
	// ---- evidence
	trusted := map[string]bool{}
	assume := map[string]bool{}
	var funcs, derived, callees []string
	for _, fc := range fcs {
		for k := range fc.trusted {
			trusted[k] = true
		}
		for _, a := range fc.assumes {
			assume[a] = true
		}
		if fc.fn != nil {
			funcs = append(funcs, fc.key)
		}
		for k := range fc.derived {
			derived = append(derived, k)
		}
		for k := range fc.callees {
			callees = append(callees, k)
		}
	}
	for k, c := range e.specs.Funcs {
		if c.Trusted && contains(callees, k) {
			trusted["assumed contract (trusted, body not verified): "+k] = true
		}
	}
	for i, r := range records {
		if i%7 == 0 && len(samples) < 12 {
			samples = append(samples, r)
		}
	}
	general := []string{
		"integers are mathematical (no wrap-around) except in functions marked `overflow`",
		"one goroutine executes the function; no concurrent writer to the state it reads",
		"error values carry no message text; tracer/log calls are no-ops",
		"the gowp VC generator and the SMT solvers are trusted (portfolio: z3 5.1.0, z3 4.8.12, cvc5 1.0.3)",
	}
	for a := range assume {
		general = append(general, a)
	}
	general = append(general, e.propAssumptions(id)...)
	sort.Strings(funcs)
	ev := map[string]interface{}{
		"property_id": id,
		"tier":        *tier,
		"seed":        seed,
		"level":       "proof",
		"coverage": map[string]interface{}{
			"obligations": len(obs),
			"discharged":  discharged,
			"discharged_under_known_finding_exclusion": underExcl,
			"checker_cmd":               "bin/check " + id + " --tier " + *tier,
			"trusted_base":              sortedKeys(trusted),
			"samples":                   samples,
			"functions_under_contract":  uniq(funcs),
			"derived_contracts_inlined": uniq(derived),
			"lemmas":                    nLemmas,
			"discharged_by_backend":     bySolver,
			"solver_seconds_total":      round3(solverTime),
			"load_seconds":              round3(loadS),
			"per_obligation_timeout_s":  timeout.Seconds(),
			"known_findings_reproduced": kfRepro,
			"obligation_list":           records,
			"engine_warnings":           e.warnings,
			"exhaustive":                false,
			"explanation":               "weakest-precondition style VCs generated from go/ssa of /repo's working tree (build tag verif), one SMT query per obligation; unsat = discharged",
		},
		"assumptions": general,
		"wall_s":      round3(time.Since(t0).Seconds()),
		"violations":  violations,
	}
	b, _ := json.MarshalIndent(ev, "", " ")
	os.WriteFile(evPath, b, 0o644)
	fmt.Printf("gowp: property %s tier %s: %d obligations, %d discharged (%d under known-finding exclusion), %d violations, %.1fs\n", id, *tier, len(obs), discharged, underExcl, violations, time.Since(t0).Seconds())
	return exit
}

func contains(xs []string, x string) bool {
	for _, y := range xs {
		if y == x {
			return true
		}
	}
	return false
}

func uniq(xs []string) []string {
	sort.Strings(xs)
	var out []string
	for i, x := range xs {
		if i == 0 || x != xs[i-1] {
			out = append(out, x)
		}
	}
	if out == nil {
		out = []string{}
	}
	return out
}

func round3(f float64) float64 { return float64(int(f*1000+0.5)) / 1000 }

// retryWithExclusions re-solves a failed obligation assuming the inputs are outside every
// listed known finding.
func (e *Engine) retryWithExclusions(o *Oblig, entries []KnownFinding, work string, timeout time.Duration) (bool, string) {
	fc := o.Fc
	if fc == nil {
		return false, "no context"
	}
	env := &Env{fc: fc, vars: map[string]CVal{}, bound: map[string]CVal{}, st: fc.entry, old: fc.entry}
	if fc.c != nil {
		env.pkg = fc.c.Pkg
	}
	for k, v := range fc.params {
		env.vars[k] = v
	}
	if env.st == nil {
		env.st = &State{heap: map[string]Term{}}
		env.old = env.st
	}
	o2 := *o
	o2.Name = o.Name + ".excl"
	for _, k := range entries {
		if k.Exclude == "" {
			return false, "entry without exclusion predicate"
		}
		ex, err := ParseExpr(k.Exclude)
		if err != nil {
			return false, err.Error()
		}
		t, err := env.evalBool(ex)
		if err != nil {
			return false, err.Error()
		}
		o2.ExtraAs = append(o2.ExtraAs, not(t.S))
	}
	r := Solve(&o2, work, timeout, false)
	return r.Status == "unsat", r.Status
}

func writeReplay(root, id, ob string, content map[string]interface{}) string {
	dir := filepath.Join(root, "replays", id)
	os.MkdirAll(dir, 0o755)
	p := filepath.Join(dir, sanitize(ob)+".json")
	b, _ := json.MarshalIndent(content, "", " ")
	os.WriteFile(p, b, 0o644)
	return p
}

// extraChecks: property-specific whole-program obligations (immutability frames etc.). Filled in per unit.
func (e *Engine) extraChecks(id string) []*Oblig {
	return append(e.programChecks(id), e.fieldInvProgramChecks(id)...)
}

func (e *Engine) propAssumptions(id string) []string { return nil }
