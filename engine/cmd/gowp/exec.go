package main

import (
	"sync"
	"fmt"
	"os"
	"go/ast"
	"go/constant"
	"go/token"
	"go/types"
	"runtime/debug"
	"sort"
	"strconv"
	"strings"

	"golang.org/x/tools/go/ssa"
)

// ---------------------------------------------------------------- values

type Val interface{}

type Tuple struct{ Elems []Val }

type PtrField struct {
	Base    Term
	Arr     string // heap array name
	Sort    string // sort of the field
	FieldT  types.Type
	StructT types.Type
	Name    string
}
type ArrCell struct {
	Elems []Val
	ElemT types.Type
	Fresh bool // no element was stored yet (all zero)
}
type PtrArrElem struct {
	Cell    *ArrCell
	Idx     int
	Field   string // non-empty: pointer to that field of the (struct) element
	FieldT  types.Type
	StructT types.Type
}
type PtrSliceElem struct {
	Slice Term
	Idx   Term
	Src   ssa.Value // the SSA value of the slice (to find where it was loaded from)
	ElemT types.Type
	Field string     // non-empty: pointer to that field of the (struct) element
	FieldT types.Type
}
type VarArgSlice struct{ Elems []Val }
type MapIter struct {
	Map  Term
	MapT *types.Map
	Vis  string // ghost heap name of the visited set
	Str  bool
	StrV Term
	Pos  string
	Region string
}
type Closure struct {
	Fn       *ssa.Function
	Bindings []Val
}

// ---------------------------------------------------------------- state

type State struct {
	heap  map[string]Term
	epoch int
}

func (s *State) clone() *State {
	n := &State{heap: make(map[string]Term, len(s.heap)), epoch: s.epoch}
	for k, v := range s.heap {
		n.heap[k] = v
	}
	return n
}

type Oblig struct {
	Name    string
	Kind    string
	Props   []string
	Goal    string
	Reach   string
	NFacts  int
	Fc      *FnCtx
	Pos     token.Position
	Cover   bool // expected sat
	Src     string
	Inputs  []string // constants to read from a model
	Lemma   *Lemma
	result  *SolveResult
	KF      string // known-finding exclusion applied
	OwnProps bool  // Props was given explicitly for this obligation
	Quick    bool  // expected to fail (known finding listed): short first attempt
	ExtraAs []string
	Ctx     []blkCtx // where it was generated: innermost frame first (see sliceFacts)
}

// blkCtx: a block of one activation (frame) of a function.
type blkCtx struct {
	fr *frame
	b  *ssa.BasicBlock
}

type deferred struct {
	guard string
	call  *ssa.CallCommon
	instr ssa.Instruction
	fr    *frame
}

type FnCtx struct {
	preds       map[string]*predInfo
	curFrame    *frame
	curBlock    *ssa.BasicBlock
	reachBlk    map[string]blkCtx // reach_bN!k -> the first block that carries this reachability condition
	factSeen    map[string]bool
	ctxErrCalls []ctxErrCall
	e           *Engine
	fn          *ssa.Function
	c           *FuncContract
	key         string
	short       string
	decls       []string
	declSet     map[string]bool
	facts       []string
	obligs      []*Oblig
	nfresh      int
	nquant      int
	atCallSeen  map[*AtCall]bool
	cellClosure map[string]*Closure // cell reference -> the one closure ever stored in it
	inFieldInv   bool
	fieldInvDone map[string]bool
	base        map[string]Term
	baseSort    map[string]string
	entry       *State
	modset      map[string][]Term
	modpred     map[string][]string
	strict      map[string][]strictLoc // heap array -> locations that must never be written (with the properties that demand it)
	modAll      map[string]bool
	modEvery    bool
	unsup       []string
	trusted     map[string]bool
	params      map[string]CVal
	inputs      []string
	counter     map[string]int
	props       []string
	callees     map[string]bool
	derived     map[string]bool
	assumes     []string
	inlineDepth int
	usedGlobals []*ssa.Global
	allocAt     map[string]string
	opaqueLemma bool
	nGlobalInv  int
}

type CVal struct {
	T   Term
	GoT types.Type // for map-typed values possibly a *regType carrying the region
}

// regType wraps a map type together with the region (see regions.go) of the value it types.
type regType struct {
	types.Type
	reg string
}

func withReg(t types.Type, reg string) types.Type {
	if reg == "" || t == nil {
		return t
	}
	if rt, ok := t.(*regType); ok {
		t = rt.Type
	}
	return &regType{t, reg}
}

func regOfT(t types.Type) string {
	if rt, ok := t.(*regType); ok {
		return rt.reg
	}
	return ""
}

func unwrapT(t types.Type) types.Type {
	if rt, ok := t.(*regType); ok {
		return rt.Type
	}
	return t
}

func (fc *FnCtx) fresh(prefix, sortName string) Term {
	fc.nfresh++
	name := fmt.Sprintf("%s!%d", sanitize(prefix), fc.nfresh)
	fc.declare(name, sortName)
	fc.nilMapEmpty(prefix, name, sortName)
	return Term{name, sortName}
}

// nilMapEmpty: in every unconstrained version of a map-domain array the nil map (reference 0) is
// empty; versions derived by stores keep that because no store goes through reference 0.
func (fc *FnCtx) nilMapEmpty(prefix, name, sortName string) {
	// every slice value held in an unconstrained version of a heap array (struct field or pointee)
	// is a Go slice: its length and offset are not negative
	if (strings.HasPrefix(prefix, "F$") || strings.HasPrefix(prefix, "D$")) && strings.HasPrefix(sortName, "(Array Int (Slc ") {
		fc.fact(fmt.Sprintf("(forall ((r Int)) (! (and (<= 0 (slen (select %s r))) (<= 0 (soff (select %s r)))) :pattern ((select %s r))))", name, name, name))
	}
	// the same for slices held as map values
	if strings.HasPrefix(prefix, "MV$") && strings.HasPrefix(sortName, "(Array Int (Array ") {
		if inner := sortArgs(sortName); len(inner) == 2 {
			if kv := sortArgs(inner[1]); len(kv) == 2 && strings.HasPrefix(kv[1], "(Slc ") {
				fc.fact(fmt.Sprintf("(forall ((m Int) (k %s)) (! (and (<= 0 (slen (select (select %s m) k))) (<= 0 (soff (select (select %s m) k)))) :pattern ((select (select %s m) k))))", kv[0], name, name, name))
			}
		}
	}
	if !strings.HasPrefix(prefix, "MD$") || !strings.HasPrefix(sortName, "(Array Int (Array ") {
		return
	}
	ks := sortArgs(sortArgs(sortName)[1])[0]
	fc.fact(fmt.Sprintf("(forall ((k %s)) (! (not (select (select %s 0) k)) :pattern ((select (select %s 0) k))))", ks, name, name))
}

func (fc *FnCtx) declare(name, sortName string) {
	if fc.declSet[name] {
		return
	}
	fc.declSet[name] = true
	fc.decls = append(fc.decls, fmt.Sprintf("(declare-const %s %s)", name, sortName))
}

func (fc *FnCtx) fact(s string) {
	// a fact already recorded is in force for everything that follows: no need to repeat it
	if fc.factSeen == nil {
		fc.factSeen = map[string]bool{}
	}
	if fc.factSeen[s] {
		return
	}
	fc.factSeen[s] = true
	fc.facts = append(fc.facts, s)
}
func (fc *FnCtx) factIf(guard, s string) {
	if guard == "true" || guard == "" {
		fc.facts = append(fc.facts, s)
	} else {
		fc.facts = append(fc.facts, fmt.Sprintf("(=> %s %s)", guard, s))
	}
}

// define gives a name to a term (keeps queries linear in size).
func (fc *FnCtx) define(prefix string, t Term) Term {
	if len(t.S) < 24 && !strings.Contains(t.S, " ") {
		return t
	}
	if strings.Contains(t.S, "q$") {
		return t // mentions a bound variable of a quantifier or spec definition: cannot be named globally
	}
	fc.nfresh++
	name := fmt.Sprintf("%s!%d", sanitize(prefix), fc.nfresh)
	fc.declSet[name] = true
	if strings.HasPrefix(t.Sort, "(Array ") && strings.HasPrefix(t.S, "(ite ") {
		// a merged heap array: a declared constant, so that quantifier patterns may mention it
		// (a define-fun is expanded inside patterns, and `ite` is not allowed there)
		fc.decls = append(fc.decls, fmt.Sprintf("(declare-const %s %s)", name, t.Sort))
		fc.fact(fmt.Sprintf("(= %s %s)", name, t.S))
		return Term{name, t.Sort}
	}
	fc.decls = append(fc.decls, fmt.Sprintf("(define-fun %s () %s %s)", name, t.Sort, t.S))
	return Term{name, t.Sort}
}

// iteChain: value selected by the first condition that holds (last alternative is the default).
func iteChain(conds []string, vals []string) string {
	if len(vals) == 1 {
		return vals[0]
	}
	out := vals[len(vals)-1]
	for i := len(vals) - 2; i >= 0; i-- {
		out = fmt.Sprintf("(ite %s %s %s)", conds[i], vals[i], out)
	}
	return out
}

func (fc *FnCtx) unsupported(f string, a ...interface{}) {
	if pat := os.Getenv("GOWP_DEBUG_UNSUP"); pat != "" && strings.Contains(fmt.Sprintf(f, a...), pat) {
		debug.PrintStack()
	}
	fc.unsup = append(fc.unsup, fmt.Sprintf(f, a...))
}

func (fc *FnCtx) oblig(kind, name string, goal string, reach string, pos token.Pos, props []string) *Oblig {
	fc.counter[name]++
	full := name
	if n := fc.counter[name]; n > 1 {
		full = fmt.Sprintf("%s#%d", name, n-1)
	}
	own := props != nil
	if props == nil {
		props = fc.props
	}
	o := &Oblig{Name: fc.short + "/" + full, Kind: kind, Props: props, Goal: goal, Reach: reach, NFacts: len(fc.facts), Fc: fc, Inputs: fc.inputs, OwnProps: own}
	for f, b := fc.curFrame, fc.curBlock; f != nil && b != nil; f, b = f.parent, f.atBlock {
		o.Ctx = append(o.Ctx, blkCtx{f, b})
	}
	if pos.IsValid() {
		o.Pos = fc.e.fset.Position(pos)
	}
	fc.obligs = append(fc.obligs, o)
	return o
}

// ---- heap access

func (fc *FnCtx) heapGet(st *State, name, sortName string) Term {
	if t, ok := st.heap[name]; ok {
		return t
	}
	var t Term
	if st.epoch == 0 {
		b, ok := fc.base[name]
		if !ok {
			b = Term{name + "@0", sortName}
			fc.declare(b.S, sortName)
			fc.nilMapEmpty(name, b.S, sortName)
			fc.base[name] = b
			fc.baseSort[name] = sortName
		}
		t = b
	} else {
		nm := fmt.Sprintf("%s@e%d", name, st.epoch)
		if !fc.declSet[nm] {
			fc.nilMapEmpty(name, nm, sortName)
		}
		fc.declare(nm, sortName)
		t = Term{nm, sortName}
	}
	st.heap[name] = t
	return t
}

func (fc *FnCtx) heapSet(st *State, name string, v Term) {
	nv := fc.define(name, v)
	st.heap[name] = nv
	fc.noteVersion(st, nv)
}

// noteVersion remembers which allocation state was current when a heap array version came into
// being: every reference stored in that version is allocated in that state (or nil).
func (fc *FnCtx) noteVersion(st *State, arrTerm Term) {
	if fc.allocAt == nil {
		fc.allocAt = map[string]string{}
	}
	if _, ok := fc.allocAt[arrTerm.S]; ok {
		return
	}
	if al, ok := st.heap["Alloc"]; ok {
		fc.allocAt[arrTerm.S] = al.S
	}
}

// assumeAllocatedFrom: v was read from heap array version arrTerm.
func (fc *FnCtx) assumeAllocatedFrom(st *State, r Term, arrTerm Term) {
	al, ok := fc.allocAt[arrTerm.S]
	if !ok {
		if strings.HasSuffix(arrTerm.S, "@0") {
			al = fc.heapGet(&State{heap: map[string]Term{}}, "Alloc", SAlloc).S
		} else {
			fc.assumeAllocated(st, r)
			return
		}
	}
	fc.fact(fmt.Sprintf("(or (= %s 0) (and (> %s 0) %s))", r.S, r.S, allocd(al, r.S)))
}

func fieldArrName(structT types.Type, field string) string {
	return "F$" + sanitize(shortType(structT)) + "$" + field
}
func derefArrName(elemT types.Type) string { return "D$" + sanitize(shortType(elemT)) }

func sel(a, i string) string      { return "(select " + a + " " + i + ")" }
func store(a, i, v string) string { return "(store " + a + " " + i + " " + v + ")" }
func and(xs ...string) string {
	var ys []string
	for _, x := range xs {
		if x != "true" && x != "" {
			ys = append(ys, x)
		}
	}
	if len(ys) == 0 {
		return "true"
	}
	if len(ys) == 1 {
		return ys[0]
	}
	return "(and " + strings.Join(ys, " ") + ")"
}
func or(xs ...string) string {
	if len(xs) == 0 {
		return "false"
	}
	if len(xs) == 1 {
		return xs[0]
	}
	return "(or " + strings.Join(xs, " ") + ")"
}
func not(x string) string   { return "(not " + x + ")" }
func eq(a, b string) string { return "(= " + a + " " + b + ")" }

func (fc *FnCtx) mapArrs(mt *types.Map, region string) (dom, val, ks, vs string) {
	ks, vs = fc.e.sortOf(mt.Key()), fc.e.sortOf(mt.Elem())
	if region == "" {
		region = fc.e.regionDefault(mt)
	}
	n := sanitize(ks) + "$" + sanitize(vs) + "$" + region
	return "MD$" + n, "MV$" + n, ks, vs
}

// newRef allocates a fresh reference.
func (fc *FnCtx) newRef(st *State, what string) Term {
	r := fc.fresh("new_"+what, SInt)
	al := fc.heapGet(st, "Alloc", SAlloc)
	fc.fact(fmt.Sprintf("(and (> %s 0) (not %s))", r.S, allocd(al.S, r.S)))
	if allocWatermark {
		fc.heapSet(st, "Alloc", Term{"(+ " + r.S + " 1)", al.Sort})
	} else {
		fc.heapSet(st, "Alloc", Term{store(al.S, r.S, "true"), al.Sort})
	}
	return r
}

// The allocation state is a watermark: the references below it are the allocated ones, a new object
// takes the watermark itself (or anything above it) and moves it past itself. Go programs cannot
// observe addresses beyond equality, so every execution is isomorphic to one that allocates this way;
// "allocated before" becomes a comparison of integers and the watermark only grows - no quantified
// monotonicity axioms are needed.
var allocWatermark = os.Getenv("GOWP_ALLOC") == "watermark"
var SAlloc = func() string {
	if allocWatermark {
		return SInt
	}
	return arr(SInt, SBool)
}()

func allocd(al, r string) string {
	if allocWatermark {
		return "(< " + r + " " + al + ")"
	}
	return "(select " + al + " " + r + ")"
}

// allocMono: everything allocated in state old is allocated in state nw.
func allocMono(old, nw string) string {
	if allocWatermark {
		return "(<= " + old + " " + nw + ")"
	}
	return fmt.Sprintf("(forall ((r Int)) (! (=> (select %s r) (select %s r)) :pattern ((select %s r))))", old, nw, nw)
}

func (fc *FnCtx) assumeAllocated(st *State, r Term) {
	al := fc.heapGet(st, "Alloc", SAlloc)
	fc.fact(fmt.Sprintf("(or (= %s 0) (and (> %s 0) %s))", r.S, r.S, allocd(al.S, r.S)))
}

// ---------------------------------------------------------------- frames

type loopInfo struct {
	header  *ssa.BasicBlock
	blocks  map[*ssa.BasicBlock]bool
	ordinal int
	spec    *LoopSpec
	node    ast.Node
	measure []Term
	mapIter *MapIter
	entrySt *State
}

type dbgRef struct {
	block *ssa.BasicBlock
	idx   int
	val   ssa.Value
	obj   types.Object
	addr  bool
}

type retInfo struct {
	cond string
	st   *State
	vals []Val
}

type frame struct {
	fc      *FnCtx
	fn      *ssa.Function
	vals    map[ssa.Value]Val
	out     map[*ssa.BasicBlock]*State
	reach   map[*ssa.BasicBlock]string
	edges   map[[2]int]string
	top     bool
	rets    []retInfo
	loops   map[*ssa.BasicBlock]*loopInfo
	debug   map[string][]dbgRef
	defers  []*deferred
	depth   map[*ssa.BasicBlock]int
	old     *State // state at function entry (for top frame)
	curState *State // state of the block being executed
	recover bool
	parent    *frame           // inlined frames: the frame of the caller
	callBlock *ssa.BasicBlock  // and the block of the call instruction
	priv      []privCell       // cells of locals that only this function writes (see privateCell)
	callBindings []Val         // captured cells of the closure being called (consumed by applyContract)
	pendingGo    []*ssa.Go     // fork/join model: goroutines that run at the next WaitGroup.Wait
	fwd          map[*ssa.BasicBlock]map[*ssa.BasicBlock]bool
	mapOwner     map[ssa.Value]*guardOwner // maps read out of lock-guarded fields (see guardCheck)
	atBlock      *ssa.BasicBlock // inlined frames: the caller's block when the body was run
}

// privCell: the heap cell of a local variable of the function under verification whose address is
// used only by loads and stores of the function itself and is captured by closures that only load
// from it. No callee can write such a cell (it never sees the address, and running one of the
// closures does not write it), so a call that "may modify everything" leaves it unchanged.
type privCell struct {
	ref   Term
	elemT types.Type
	alloc *ssa.Alloc
}

func privateCell(a *ssa.Alloc) bool {
	var readOnly func(v ssa.Value, depth int) bool
	readOnly = func(v ssa.Value, depth int) bool {
		if depth > 4 || v.Referrers() == nil {
			return false
		}
		for _, ref := range *v.Referrers() {
			switch x := ref.(type) {
			case *ssa.UnOp:
				if x.Op != token.MUL {
					return false
				}
			case *ssa.DebugRef:
			case *ssa.Store:
				if x.Addr != v || x.Val == v || depth > 0 {
					return false // stored somewhere as a value, or written by a closure
				}
			case *ssa.MakeClosure:
				fn, ok := x.Fn.(*ssa.Function)
				if !ok {
					return false
				}
				for k, b := range x.Bindings {
					if b == v {
						if k >= len(fn.FreeVars) || !readOnly(fn.FreeVars[k], depth+1) {
							return false
						}
					}
				}
			default:
				return false
			}
		}
		return true
	}
	return readOnly(a, 0)
}

func (fc *FnCtx) newFrame(fn *ssa.Function, top bool) *frame {
	fr := &frame{fc: fc, fn: fn, vals: map[ssa.Value]Val{}, out: map[*ssa.BasicBlock]*State{}, reach: map[*ssa.BasicBlock]string{},
		edges: map[[2]int]string{}, top: top, loops: map[*ssa.BasicBlock]*loopInfo{}, debug: map[string][]dbgRef{}, depth: map[*ssa.BasicBlock]int{}}
	for _, b := range fn.Blocks {
		d := 0
		for x := b.Idom(); x != nil; x = x.Idom() {
			d++
		}
		fr.depth[b] = d
		for i, in := range b.Instrs {
			if dr, ok := in.(*ssa.DebugRef); ok {
				if obj := dr.Object(); obj != nil {
					fr.debug[obj.Name()] = append(fr.debug[obj.Name()], dbgRef{b, i, dr.X, obj, dr.IsAddr})
				}
			}
		}
	}
	fr.findLoops()
	return fr
}

func (fr *frame) findLoops() {
	fn := fr.fn
	for _, b := range fn.Blocks {
		for _, s := range b.Succs {
			if s.Dominates(b) { // back edge b -> s
				li := fr.loops[s]
				if li == nil {
					li = &loopInfo{header: s, blocks: map[*ssa.BasicBlock]bool{s: true}}
					fr.loops[s] = li
				}
				// natural loop: all blocks that reach b without passing s
				stack := []*ssa.BasicBlock{b}
				for len(stack) > 0 {
					x := stack[len(stack)-1]
					stack = stack[:len(stack)-1]
					if li.blocks[x] {
						continue
					}
					li.blocks[x] = true
					stack = append(stack, x.Preds...)
				}
			}
		}
	}
	if len(fr.loops) == 0 {
		return
	}
	stmts := loopStmts(fn)
	// bind innermost loops first; a loop that contains other loops is bound to the innermost
	// statement that strictly contains the statements of all its inner loops.
	var order []*loopInfo
	for _, li := range fr.loops {
		order = append(order, li)
	}
	sort.Slice(order, func(i, j int) bool {
		if len(order[i].blocks) != len(order[j].blocks) {
			return len(order[i].blocks) < len(order[j].blocks)
		}
		return order[i].header.Index < order[j].header.Index
	})
	for _, li := range order {
		lo, hi := token.Pos(0), token.Pos(0)
		for b := range li.blocks {
			for _, in := range b.Instrs {
				p := in.Pos()
				if _, isDbg := in.(*ssa.DebugRef); isDbg {
					continue
				}
				if _, isPhi := in.(*ssa.Phi); isPhi {
					continue
				}
				if !p.IsValid() {
					continue
				}
				if lo == 0 || p < lo {
					lo = p
				}
				if p > hi {
					hi = p
				}
			}
		}
		// statements of loops nested inside this one
		var inner []ast.Node
		for _, other := range order {
			if other == li || other.node == nil || len(other.blocks) >= len(li.blocks) {
				continue
			}
			if li.blocks[other.header] {
				inner = append(inner, other.node)
			}
		}
		li.ordinal = -1
		best := -1
		for i, s := range stmts {
			if !(s.Pos() <= lo && hi <= s.End()) {
				continue
			}
			ok := true
			for _, in := range inner {
				if !(s.Pos() <= in.Pos() && in.End() <= s.End() && s != in) {
					ok = false
				}
			}
			if !ok {
				continue
			}
			if best < 0 || (stmts[best].Pos() <= s.Pos() && s.End() <= stmts[best].End()) {
				best = i
			}
		}
		if best >= 0 {
			li.ordinal = best
			li.node = stmts[best]
		}
		if os.Getenv("GOWP_DEBUG_LOOPS") != "" {
			fmt.Fprintf(os.Stderr, "loop header b%d of %s: lo=%v hi=%v -> ordinal %d\n", li.header.Index, fn.Name(), fr.fc.e.fset.Position(lo), fr.fc.e.fset.Position(hi), li.ordinal)
		}
	}
	// disambiguate loops mapped to the same statement (should not happen); fall back to header order
	seen := map[int]*loopInfo{}
	var hs []*loopInfo
	for _, li := range fr.loops {
		hs = append(hs, li)
	}
	sort.Slice(hs, func(i, j int) bool { return hs[i].header.Index < hs[j].header.Index })
	for _, li := range hs {
		if li.ordinal < 0 || seen[li.ordinal] != nil {
			fr.fc.unsupported("loop at block %d of %s cannot be bound to a source loop", li.header.Index, fr.fn.Name())
		}
		seen[li.ordinal] = li
		if fr.top && fr.fc.c != nil {
			li.spec = fr.fc.c.Loops[li.ordinal]
		}
		if !fr.top && fr.fc.c != nil {
			if m := fr.fc.c.InlineLoops[fr.fn.Name()]; m != nil {
				li.spec = m[li.ordinal]
			}
		}
	}
	if fr.top && fr.fc.c != nil {
		for n := range fr.fc.c.Loops {
			if seen[n] == nil {
				fr.fc.unsupported("contract names loop %d but function %s has %d loops", n, fr.fn.Name(), len(stmts))
			}
		}
	}
}

func (fr *frame) isBackEdge(from, to *ssa.BasicBlock) bool {
	return to.Dominates(from)
}

// fwdReaches: is there a path from x to b that takes no back edge (x == b included)? This is the
// path relation of the verification condition, in which every loop is cut at its head.
func (fr *frame) fwdReaches(x, b *ssa.BasicBlock) bool {
	if fr.fwd == nil {
		fr.fwd = map[*ssa.BasicBlock]map[*ssa.BasicBlock]bool{}
	}
	m := fr.fwd[x]
	if m == nil {
		m = map[*ssa.BasicBlock]bool{}
		var dfs func(c *ssa.BasicBlock)
		dfs = func(c *ssa.BasicBlock) {
			if m[c] {
				return
			}
			m[c] = true
			for _, s := range c.Succs {
				if !fr.isBackEdge(c, s) {
					dfs(s)
				}
			}
		}
		dfs(x)
		fr.fwd[x] = m
	}
	return m[b]
}

// sliceFacts: the facts an obligation is checked under, without those that are guarded by the
// reachability of a block which no path to the obligation passes through (the facts of the other
// branches: postconditions of calls made there, and so on). Leaving an assumption out can only
// make an obligation harder to prove, never easier; it keeps the queries small.
var sliceMu sync.Mutex

func (o *Oblig) sliceFacts(facts []string) []string {
	fc := o.Fc
	if len(o.Ctx) == 0 || fc.reachBlk == nil || os.Getenv("GOWP_NOSLICE") != "" {
		return facts
	}
	sliceMu.Lock() // (obligations are written out from several goroutines; fwdReaches fills a cache)
	defer sliceMu.Unlock()
	out := make([]string, 0, len(facts))
	for _, f := range facts {
		if strings.HasPrefix(f, "(=> reach_b") {
			g := f[4:]
			if i := strings.IndexByte(g, ' '); i > 0 {
				if x, ok := fc.reachBlk[g[:i]]; ok {
					drop := false
					for _, c := range o.Ctx {
						if c.fr == x.fr {
							drop = !x.fr.fwdReaches(x.b, c.b)
							break
						}
					}
					if drop {
						continue
					}
				}
			}
		}
		out = append(out, f)
	}
	return out
}

// run executes the body of fr.fn from the given start state.
func (fr *frame) run(start *State, startReach string) {
	fn := fr.fn
	if len(fn.Blocks) == 0 {
		fr.fc.unsupported("function %s has no body", fn.Name())
		return
	}
	// topological order ignoring back edges: reverse postorder over the DAG
	var order []*ssa.BasicBlock
	seen := map[*ssa.BasicBlock]bool{}
	var dfs func(b *ssa.BasicBlock)
	dfs = func(b *ssa.BasicBlock) {
		seen[b] = true
		for _, s := range b.Succs {
			if !seen[s] && !fr.isBackEdge(b, s) {
				dfs(s)
			}
		}
		order = append(order, b)
	}
	dfs(fn.Blocks[0])
	for i, j := 0, len(order)-1; i < j; i, j = i+1, j-1 {
		order[i], order[j] = order[j], order[i]
	}
	for _, b := range order {
		if b == fn.Recover {
			continue
		}
		var st *State
		var reach string
		if b == fn.Blocks[0] {
			st, reach = start.clone(), startReach
		} else {
			st, reach = fr.mergePreds(b)
		}
		if st == nil {
			continue
		}
		if strings.Contains(reach, " ") {
			fr.reach[b] = fr.fc.define("reach_b"+strconv.Itoa(b.Index), Term{reach, SBool}).S
		} else {
			fr.reach[b] = reach
		}
		if strings.HasPrefix(fr.reach[b], "reach_b") {
			if fr.fc.reachBlk == nil {
				fr.fc.reachBlk = map[string]blkCtx{}
			}
			if _, ok := fr.fc.reachBlk[fr.reach[b]]; !ok {
				fr.fc.reachBlk[fr.reach[b]] = blkCtx{fr, b}
			}
		}
		fr.fc.curFrame, fr.fc.curBlock = fr, b
		if li := fr.loops[b]; li != nil {
			st = fr.loopHeader(li, b, st)
		} else {
			fr.phis(b, nil)
		}
		fr.execBlock(b, st)
	}
}

// mergePreds merges the states of the forward predecessors of b.
func (fr *frame) mergePreds(b *ssa.BasicBlock) (*State, string) {
	fc := fr.fc
	type inc struct {
		st   *State
		cond string
	}
	var ins []inc
	for _, p := range b.Preds {
		if fr.isBackEdge(p, b) {
			continue
		}
		ps := fr.out[p]
		if ps == nil {
			continue
		}
		c, ok := fr.edges[[2]int{p.Index, b.Index}]
		if !ok {
			continue
		}
		ins = append(ins, inc{ps, c})
	}
	if len(ins) == 0 {
		return nil, ""
	}
	var conds []string
	for _, i := range ins {
		conds = append(conds, i.cond)
	}
	if len(ins) == 1 {
		return ins[0].st.clone(), ins[0].cond
	}
	st := &State{heap: map[string]Term{}}
	names := map[string]string{}
	for _, i := range ins {
		if i.st.epoch > st.epoch {
			st.epoch = i.st.epoch
		}
		for k, v := range i.st.heap {
			names[k] = v.Sort
		}
	}
	var keys []string
	for k := range names {
		keys = append(keys, k)
	}
	sort.Strings(keys)
	for _, k := range keys {
		same := true
		var first Term
		for n, i := range ins {
			t := fc.heapGet(i.st, k, names[k])
			if n == 0 {
				first = t
			} else if t.S != first.S {
				same = false
			}
		}
		if same {
			st.heap[k] = first
			continue
		}
		var vs []string
		for _, i := range ins {
			vs = append(vs, i.st.heap[k].S)
		}
		st.heap[k] = fc.define(k+"_j", Term{iteChain(conds, vs), names[k]})
	}
	return st, or(conds...)
}

// phis assigns phi values of block b. If fresh != nil the phis are havoced (loop header).
func (fr *frame) phis(b *ssa.BasicBlock, havoc map[*ssa.Phi]Term) {
	fc := fr.fc
	for _, in := range b.Instrs {
		phi, ok := in.(*ssa.Phi)
		if !ok {
			break
		}
		if havoc != nil {
			fr.vals[phi] = havoc[phi]
			continue
		}
		sortName := fc.e.sortOf(phi.Type())
		if sortName == "TUPLE" {
			fc.unsupported("phi of tuple")
			continue
		}
		var cs, vs []string
		for i, p := range b.Preds {
			c, ok := fr.edges[[2]int{p.Index, b.Index}]
			if !ok || fr.isBackEdge(p, b) {
				continue
			}
			ev := fr.term(phi.Edges[i])
			cs = append(cs, c)
			vs = append(vs, ev.S)
		}
		if len(vs) == 0 {
			fr.vals[phi] = fc.fresh("phi_"+phi.Name(), sortName)
			continue
		}
		fr.vals[phi] = fc.define("phi_"+phi.Name(), Term{iteChain(cs, vs), sortName})
	}
}

func (fr *frame) setEdge(from, to *ssa.BasicBlock, cond string) {
	k := [2]int{from.Index, to.Index}
	if old, ok := fr.edges[k]; ok {
		fr.edges[k] = or(old, cond)
	} else {
		fr.edges[k] = cond
	}
}

func (fr *frame) execBlock(b *ssa.BasicBlock, st *State) {
	fc := fr.fc
	fr.curState = st
	reach := fr.reach[b]
	for _, in := range b.Instrs {
		fc.curFrame, fc.curBlock = fr, b // (an inlined callee has moved them)
		switch i := in.(type) {
		case *ssa.Phi, *ssa.DebugRef:
			continue
		case *ssa.If:
			c := fr.term(i.Cond)
			fr.out[b] = st
			fr.setEdge(b, b.Succs[0], and(reach, c.S))
			fr.setEdge(b, b.Succs[1], and(reach, not(c.S)))
			fr.backEdges(b, st)
			return
		case *ssa.Jump:
			fr.out[b] = st
			fr.setEdge(b, b.Succs[0], reach)
			fr.backEdges(b, st)
			return
		case *ssa.Return:
			var vals []Val
			for _, r := range i.Results {
				vals = append(vals, fr.val(r))
			}
			fr.doReturn(b, st, vals, i.Results, i.Pos())
			fr.out[b] = st
			return
		case *ssa.Panic:
			fc.oblig("safety", "safety.panic", "false", reach, i.Pos(), nil).Src = "explicit panic reachable"
			fr.out[b] = st
			return
		default:
			fr.exec(in, st, reach)
		}
	}
	fr.out[b] = st
}

// backEdges checks invariants/decreases for back edges leaving b.
func (fr *frame) backEdges(b *ssa.BasicBlock, st *State) {
	for _, s := range b.Succs {
		if fr.isBackEdge(b, s) {
			li := fr.loops[s]
			cond := fr.edges[[2]int{b.Index, s.Index}]
			fr.checkLoopBack(li, b, st, cond)
			delete(fr.edges, [2]int{b.Index, s.Index})
		}
	}
}

func (fr *frame) doReturn(b *ssa.BasicBlock, st *State, vals []Val, resVals []ssa.Value, pos token.Pos) {
	fc := fr.fc
	reach := fr.reach[b]
	if !fr.top {
		fr.rets = append(fr.rets, retInfo{reach, st.clone(), vals})
		return
	}
	if fc.c == nil {
		return
	}
	env := fc.contractEnv(fc.c, fr.fn, nil, st, fr.old)
	env.bindResults(fr.fn, vals, resVals, fr)
	if len(fc.c.Ghostset) > 0 {
		st = st.clone()
		env.st = st
		for _, gs := range fc.c.Ghostset {
			v, err := env.eval(gs.Val)
			if err != nil {
				fc.unsupported("ghostset %s: %v", gs.Src, err)
				continue
			}
			locs, err := env.evalLocs(gs.Loc)
			if err != nil || len(locs) != 1 {
				fc.unsupported("ghostset %s: bad location", gs.Src)
				continue
			}
			l := locs[0]
			if l.ref.Sort == "SCALAR" {
				st.heap[l.arr] = fc.define(l.arr, v.T)
				continue
			}
			a := fc.heapGet(st, l.arr, l.sort)
			fc.heapSet(st, l.arr, Term{store(a.S, l.ref.S, v.T.S), a.Sort})
		}
	}
	for _, gi := range fc.e.specs.GlobalInvs {
		if gi.By != fc.c.Key {
			continue
		}
		genv := &Env{fc: fc, pkg: gi.Pkg, vars: map[string]CVal{}, bound: map[string]CVal{}, st: st, old: fr.old}
		t, err := genv.evalBool(gi.Expr)
		if err != nil {
			fc.unsupported("globalinv %s: %v", gi.Name, err)
			continue
		}
		o := fc.oblig("post", "globalinv."+gi.Name, t.S, reach, pos, nil)
		o.Src = gi.Src
	}
	fc.fieldInvParams(fr.fn, st, false, reach, pos)
	for idx, cl := range fc.c.Ensures {
		t, err := env.evalBool(cl.Expr)
		name := cl.Name
		if name == "" {
			name = strconv.Itoa(idx)
		}
		if err != nil {
			fc.unsupported("ensures %s: %v", name, err)
			continue
		}
		props := cl.Props
		o := fc.oblig("post", "post."+name, t.S, reach, pos, props)
		o.Src = cl.Src
	}
}

// term returns the SMT term for an SSA value.
func (fr *frame) term(v ssa.Value) Term {
	x := fr.val(v)
	switch t := x.(type) {
	case Term:
		return t
	case *Closure:
		return Term{strconv.Itoa(fr.fc.e.funcTag(fnKey(t.Fn))), SInt}
	case *PtrField:
		fr.fc.unsupported("interior pointer &x.%s used as a value in %s", t.Name, fr.fn.Name())
		return fr.fc.fresh("interior", SInt)
	case *PtrSliceElem:
		// &s[i] used as a value: materialised as a pointer to a copy of the element. Sound as long as
		// nothing is written through such pointers (stores through them are rejected as unsupported).
		fc := fr.fc
		if t.ElemT == nil || fr.curState == nil || t.Field != "" {
			fc.unsupported("pointer to a slice element used as a value in %s", fr.fn.Name())
			return fc.fresh("interior", SInt)
		}
		r := fc.newRef(fr.curState, "elemcopy")
		ev := fc.slcAt(t.Slice, t.Idx.S)
		fr.storeRefNoFrameAny(fr.curState, r, t.ElemT, ev)
		fc.assumes = append(fc.assumes, "&slice[i] used as a value is modelled as a pointer to a copy of the element (no store goes through such a pointer in the verified code)")
		fr.vals[v] = r
		return r
	case *VarArgSlice:
		// a composite literal []T{...} used as a value
		if st, ok := v.Type().Underlying().(*types.Slice); ok && !isByte(st.Elem()) {
			fc := fr.fc
			es := fc.e.sortOf(st.Elem())
			a := fmt.Sprintf("((as const %s) %s)", arr(SInt, es), fc.e.zero(es, st.Elem()).S)
			okAll := true
			for i, el := range t.Elems {
				et, isT := el.(Term)
				if !isT {
					okAll = false
					break
				}
				a = store(a, strconv.Itoa(i), et.S)
			}
			if okAll {
				r := fc.define("lit", Term{fmt.Sprintf("(mkslc %s 0 %d)", a, len(t.Elems)), slc(es)})
				for i, el := range t.Elems {
					fc.fact(eq(fc.slcAt(r, strconv.Itoa(i)).S, el.(Term).S))
				}
				return r
			}
		}
	case nil:
		fr.fc.unsupported("value %s (%T) has no symbolic value in %s", v.Name(), v, fr.fn.Name())
		return fr.fc.fresh("undef", fr.fc.e.sortOf(v.Type()))
	}
	fr.fc.unsupported("value %s of kind %T used as a term in %s", v.Name(), x, fr.fn.Name())
	return fr.fc.fresh("undef", fr.fc.e.sortOf(v.Type()))
}

func (fr *frame) val(v ssa.Value) Val {
	if x, ok := fr.vals[v]; ok {
		return x
	}
	fc := fr.fc
	switch c := v.(type) {
	case *ssa.Const:
		return fc.constTerm(c)
	case *ssa.Function:
		return Term{strconv.Itoa(fc.e.funcTag(fnKey(c))), SInt}
	case *ssa.Global:
		return fc.globalRef(c)
	case *ssa.Builtin:
		return c
	}
	return nil
}

func (fc *FnCtx) constTerm(c *ssa.Const) Term {
	sortName := fc.e.sortOf(c.Type())
	if c.Value == nil {
		return fc.e.zero(sortName, c.Type())
	}
	switch c.Value.Kind() {
	case constant.Bool:
		if constant.BoolVal(c.Value) {
			return Term{"true", SBool}
		}
		return Term{"false", SBool}
	case constant.Int:
		if sortName == SF64 {
			return Term{"f64$c" + sanitize(c.Value.ExactString()), SF64}
		}
		s := c.Value.ExactString()
		if strings.HasPrefix(s, "-") {
			return Term{"(- " + s[1:] + ")", SInt}
		}
		return Term{s, SInt}
	case constant.String:
		return Term{smtString(constant.StringVal(c.Value)), SString}
	case constant.Float:
		n := "f64$c" + sanitize(c.Value.ExactString())
		fc.declare(n, SF64)
		return Term{n, SF64}
	}
	return fc.fresh("const", sortName)
}

func smtString(s string) string {
	var sb strings.Builder
	sb.WriteByte('"')
	for i := 0; i < len(s); i++ {
		c := s[i]
		switch {
		case c == '"':
			sb.WriteString("\"\"")
		case c >= 32 && c < 127 && c != '\\':
			sb.WriteByte(c)
		default:
			fmt.Fprintf(&sb, "\\u{%x}", c)
		}
	}
	sb.WriteByte('"')
	return sb.String()
}

// globalRef: address of a package-level variable: a fixed negative reference per global
// (never nil, never fresh).
func (fc *FnCtx) globalRef(c *ssa.Global) Term {
	name := "glob$" + sanitize(c.Pkg.Pkg.Name()+"_"+c.Name())
	if !fc.declSet[name] {
		fc.declare(name, SInt)
		fc.fact(fmt.Sprintf("(= %s (- %d))", name, 1000+fc.e.funcTag("glob:"+c.String())))
	}
	return Term{name, SInt}
}

// isStable: loads of the global yield a state-independent constant in this function.
func (fc *FnCtx) isStable(g *ssa.Global) bool {
	if _, bad := fc.e.unstable[g]; bad {
		return false
	}
	if fc.fn != nil && fc.fn.Pkg == g.Pkg && (fc.fn.Name() == "init" || strings.HasPrefix(fc.fn.Name(), "init#")) {
		return false
	}
	return true
}

func (fc *FnCtx) globalVal(g *ssa.Global) Term {
	elemT := ptrElem(g.Type())
	srt := fc.e.sortOf(elemT)
	name := "gval$" + sanitize(g.Pkg.Pkg.Name()+"_"+g.Name())
	if !fc.declSet[name] {
		fc.declare(name, srt)
		if srt == SInt && isRefType(elemT) {
			fc.fact(fmt.Sprintf("(>= %s 0)", name))
		}
		fc.usedGlobals = append(fc.usedGlobals, g)
	}
	return Term{name, srt}
}

type strictLoc struct {
	ref   Term
	props []string
	src   string
}

// opaque: strings are an uninterpreted sort in this verification context.
func (fc *FnCtx) opaque() bool {
	return fc.opaqueLemma || (fc.c != nil && fc.c.Opts["strings"] == "opaque")
}
