package main

import (
	"encoding/json"
	"go/token"

	"fmt"
	"go/types"
	"golang.org/x/tools/go/ssa"
	"os"
	"os/exec"
	"path/filepath"
	"strconv"
	"strings"
)

// decodeSMTString turns an SMT-LIB string literal (as printed in a model) into Go bytes.
func decodeSMTString(s string) (string, bool) {
	s = strings.TrimSpace(s)
	if len(s) < 2 || s[0] != '"' || s[len(s)-1] != '"' {
		return "", false
	}
	s = s[1 : len(s)-1]
	var out []byte
	for i := 0; i < len(s); i++ {
		c := s[i]
		if c == '"' && i+1 < len(s) && s[i+1] == '"' {
			out = append(out, '"')
			i++
			continue
		}
		if c == '\\' && i+1 < len(s) {
			if s[i+1] == 'u' && i+2 < len(s) && s[i+2] == '{' {
				j := strings.IndexByte(s[i:], '}')
				if j > 0 {
					n, err := strconv.ParseInt(s[i+3:i+j], 16, 32)
					if err == nil {
						if n > 255 {
							return "", false
						}
						out = append(out, byte(n))
						i += j
						continue
					}
				}
			}
			if s[i+1] == 'u' && i+5 < len(s) {
				n, err := strconv.ParseInt(s[i+2:i+6], 16, 32)
				if err == nil && n <= 255 {
					out = append(out, byte(n))
					i += 5
					continue
				}
			}
			if s[i+1] == 'x' && i+3 < len(s) {
				n, err := strconv.ParseInt(s[i+2:i+4], 16, 32)
				if err == nil {
					out = append(out, byte(n))
					i += 3
					continue
				}
			}
		}
		out = append(out, c)
	}
	return string(out), true
}

func decodeSMTInt(s string) (int64, bool) {
	s = strings.TrimSpace(s)
	neg := false
	if strings.HasPrefix(s, "(-") {
		neg = true
		s = strings.TrimSpace(strings.TrimSuffix(strings.TrimPrefix(s, "(-"), ")"))
	}
	n, err := strconv.ParseInt(s, 10, 64)
	if err != nil {
		return 0, false
	}
	if neg {
		n = -n
	}
	return n, true
}

// replayObligation writes the replay file of a failed obligation and, when the solver gave
// a model that maps to concrete arguments, runs the real function on it.
func (e *Engine) replayObligation(root, id string, o *Oblig) (string, bool) {
	r := o.result
	content := map[string]interface{}{
		"property":   id,
		"obligation": o.Name,
		"kind":       o.Kind,
		"clause":     o.Src,
		"status":     r.Status,
		"solver":     r.Solver,
		"solvers":    r.All,
		"model":      r.Model,
		"output":     firstLines(r.Raw, 40),
	}
	if o.Pos.IsValid() {
		content["where"] = fmt.Sprintf("%s:%d", shortFile(o.Pos.Filename), o.Pos.Line)
	}
	if b, err := os.ReadFile(r.File); err == nil {
		dir := filepath.Join(root, "replays", id)
		os.MkdirAll(dir, 0o755)
		smt := filepath.Join(dir, sanitize(o.Name)+".smt2")
		os.WriteFile(smt, b, 0o644)
		content["smt2"] = smt
	}
	confirmed := false
	if o.Cover {
		content["replay"] = "vacuity guard failed: the precondition of the function is not satisfiable (or could not be shown satisfiable)"
	} else if len(r.Model) == 0 {
		content["replay"] = "no model from the solver (status " + r.Status + "): obligation undischarged, no failing input claimed"
	} else if o.Fc != nil && o.Fc.fn != nil {
		src, pkgDir, pkgPath, why := e.replaySource(o)
		if src == "" {
			content["replay"] = "model found but no replay template applies: " + why
		} else {
			content["go_test_source"] = src
			content["package_dir"] = pkgDir
			content["package"] = pkgPath
			out, failed := runReplay(src, pkgDir, pkgPath)
			content["replay_output"] = out
			if failed {
				confirmed = true
				content["replay"] = "confirmed on the real code"
			} else {
				content["replay"] = "model did not reproduce on the real code (contract or library axiom too weak, or the failure is not observable by the template)"
			}
		}
	}
	return writeReplay(root, id, o.Name, content), confirmed
}

// replaySource builds an in-package test that calls the function with the model's arguments.
func (e *Engine) replaySource(o *Oblig) (src, pkgDir, pkgPath, why string) {
	fc := o.Fc
	fn := fc.fn
	if fn.Pkg == nil {
		return "", "", "", "no package"
	}
	p := e.pkgs[fn.Pkg.Pkg.Path()]
	if p == nil || len(p.GoFiles) == 0 {
		return "", "", "", "package files unknown"
	}
	pkgDir = filepath.Dir(p.GoFiles[0])
	pkgPath = p.PkgPath
	recv := ""
	params := fn.Params
	if fn.Signature.Recv() != nil {
		rc := ""
		if fc.c != nil {
			rc = fc.c.Opts["replay-recv"]
		}
		if rc == "" {
			return "", "", "", "method without replay-recv"
		}
		recv = "(" + rc + ")."
		params = params[1:]
	}
	if fn.Parent() != nil {
		return "", "", "", "closure"
	}
	var args []string
	for _, prm := range params {
		mv, ok := o.result.Model["p$"+sanitize(prm.Name())]
		if !ok {
			return "", "", "", "model has no value for " + prm.Name()
		}
		b, isB := prm.Type().Underlying().(*types.Basic)
		if !isB {
			if fc.c != nil && fc.c.Opts["replay-arg-"+prm.Name()] != "" {
				args = append(args, fc.c.Opts["replay-arg-"+prm.Name()])
				continue
			}
			return "", "", "", "parameter " + prm.Name() + " is not a scalar"
		}
		switch {
		case b.Info()&types.IsString != 0:
			s, ok := decodeSMTString(mv)
			if !ok {
				return "", "", "", "cannot decode string " + mv
			}
			args = append(args, strconv.Quote(s))
		case b.Info()&types.IsInteger != 0:
			n, ok := decodeSMTInt(mv)
			if !ok {
				return "", "", "", "cannot decode int " + mv
			}
			args = append(args, fmt.Sprintf("%s(%d)", b.Name(), n))
		case b.Info()&types.IsBoolean != 0:
			args = append(args, strings.TrimSpace(mv))
		default:
			return "", "", "", "unsupported scalar"
		}
	}
	res := fn.Signature.Results()
	call := recv + fn.Name() + "(" + strings.Join(args, ", ") + ")"
	body := ""
	switch {
	case res.Len() == 2 && isRefType(res.At(0).Type()) && types.Identical(res.At(1).Type(), types.Universe.Lookup("error").Type()):
		body = "v, err := " + call + "\n\tif v == nil && err == nil {\n\t\tt.Fatalf(\"REPLAY-FAIL: returned (nil, nil)\")\n\t}\n"
	case res.Len() == 0:
		body = call + "\n"
	default:
		lhs := make([]string, res.Len())
		for i := range lhs {
			lhs[i] = "_"
		}
		body = strings.Join(lhs, ", ") + " = " + call + "\n"
	}
	imports := ""
	if fc.c != nil {
		for _, im := range strings.Fields(fc.c.Opts["replay-imports"]) {
			imports += "import " + strconv.Quote(im) + "\n"
		}
	}
	src = fmt.Sprintf(`package %s

import "testing"
`+imports+`

// generated by gowp: replay of obligation %s
func TestVerifReplay(t *testing.T) {
	defer func() {
		if r := recover(); r != nil {
			t.Fatalf("REPLAY-FAIL: panic: %%v", r)
		}
	}()
	%s}
`, p.Name, o.Name, body)
	return src, pkgDir, pkgPath, ""
}

func runReplay(src, pkgDir, pkgPath string) (string, bool) {
	tmp, err := os.MkdirTemp("", "gowp-replay-")
	if err != nil {
		return err.Error(), false
	}
	defer os.RemoveAll(tmp)
	tf := filepath.Join(tmp, "zz_verif_replay_test.go")
	os.WriteFile(tf, []byte(src), 0o644)
	ov := map[string]map[string]string{"Replace": {filepath.Join(pkgDir, "zz_verif_replay_test.go"): tf}}
	b, _ := json.Marshal(ov)
	ovf := filepath.Join(tmp, "ov.json")
	os.WriteFile(ovf, b, 0o644)
	cmd := exec.Command("bash", "-c", fmt.Sprintf("ulimit -v 8000000; cd %s && go test -overlay %s -vet=off -count=1 -timeout 60s -run '^TestVerifReplay$' %s 2>&1 | tail -30", repoRoot(), ovf, pkgPath))
	cmd.Env = append(os.Environ(), "GOFLAGS=-mod=mod", "GOPROXY=off", "GOSUMDB=off", "GOTOOLCHAIN=local")
	out, _ := cmd.CombinedOutput()
	s := string(out)
	return s, strings.Contains(s, "REPLAY-FAIL")
}

func replayMain(args []string) int {
	if len(args) < 1 {
		fmt.Fprintln(os.Stderr, "usage: gowp replay <file.json>")
		return 2
	}
	b, err := os.ReadFile(args[0])
	if err != nil {
		fmt.Fprintln(os.Stderr, err)
		return 2
	}
	var c map[string]interface{}
	if err := json.Unmarshal(b, &c); err != nil {
		fmt.Fprintln(os.Stderr, err)
		return 2
	}
	fmt.Printf("obligation: %v\nclause: %v\nstatus: %v\nmodel: %v\n", c["obligation"], c["clause"], c["status"], c["model"])
	src, _ := c["go_test_source"].(string)
	if src == "" {
		fmt.Println("no concrete replay recorded:", c["replay"])
		return 1
	}
	os.Setenv("PATH", goBin+":"+os.Getenv("PATH"))
	out, failed := runReplay(src, c["package_dir"].(string), c["package"].(string))
	fmt.Println(out)
	if failed {
		fmt.Println("replay: failure reproduced on the real code")
		return 1
	}
	fmt.Println("replay: not reproduced")
	return 0
}

// programChecks: whole-program structural obligations per property.
func (e *Engine) programChecks(id string) []*Oblig {
	var out []*Oblig
	add := func(name string, ok bool, src string, pos token.Pos) {
		fc := e.newFnCtx("program."+name, nil, nil)
		fc.short = "program"
		goal := "true"
		if !ok {
			goal = "false"
		}
		o := fc.oblig("structural", name, goal, "true", pos, []string{id})
		o.Src = src
		out = append(out, o)
	}
	switch id {
	case "C17":
		return e.c17Obligations(id)
	case "C18":
		return e.c18Obligations(id)
	case "C19":
		return e.c19Obligations(id)
	case "C16", "C08":
		// Only emit/emitError send on a lexer's token channel, only run closes it; hence the ghost
		// log maintained by their contracts is the complete output of the lexer.
		sp := e.ssaPkgs["github.com/google/badwolf/bql/lexer"]
		if sp == nil {
			add("lexer.package-present", false, "package bql/lexer not found", 0)
			break
		}
		okSend, okClose, okGo := true, true, true
		var bad token.Pos
		for f := range e.allFuncs {
			if f.Pkg != sp {
				continue
			}
			for _, b := range f.Blocks {
				for _, in := range b.Instrs {
					switch i := in.(type) {
					case *ssa.Send:
						if !(f.Name() == "emit" || f.Name() == "emitError") {
							okSend, bad = false, i.Pos()
						}
					case *ssa.Call:
						if bi, ok := i.Call.Value.(*ssa.Builtin); ok && bi.Name() == "close" && f.Name() != "run" {
							okClose, bad = false, i.Pos()
						}
					case *ssa.Go:
						if f.Name() != "lex" {
							okGo, bad = false, i.Pos()
						}
					case *ssa.Select:
						okSend, bad = false, i.Pos()
					}
				}
			}
		}
		add("lexer.only-emit-sends", okSend, "every channel send of package lexer is in emit or emitError", bad)
		add("lexer.only-run-closes", okClose, "close() is called only in (*lexer).run", bad)
		add("lexer.single-goroutine", okGo, "the only go statement of package lexer is in lex", bad)
	}
	return out
}
