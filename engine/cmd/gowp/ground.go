package main

// Ground evaluation of closed, input-free functions (the BQL grammar tables): the SSA of the
// function is executed on concrete values. There is nothing symbolic in such a function, so the
// symbolic state *is* a concrete heap; the postcondition is then checked on that ground heap by
// the solver, one obligation per rule (see c17.go). Calls that leave the package are opaque
// (they return an opaque token and cannot touch the table, which they never receive).

import (
	"fmt"
	"go/constant"
	"go/token"
	"go/types"
	"strings"

	"golang.org/x/tools/go/ssa"
)

type gobj struct {
	fields map[string]interface{}
	elems  []interface{}
	cell   interface{}
	typ    types.Type
}

type gptr struct {
	obj   *gobj
	field string // "" = whole object / cell
	idx   int    // >= 0: array element
}

type gslice struct {
	arr      *gobj
	off, len int
}

type gmap struct {
	keys []interface{}
	m    map[interface{}]interface{}
}

type gclosure struct {
	fn       *ssa.Function
	bindings []interface{}
}

type gopaque struct{ what string }

type groundEval struct {
	e       *Engine
	pkgPath string
	steps   int
	err     error
	opaque  map[string]int
}

func (g *groundEval) fail(f string, a ...interface{}) {
	if g.err == nil {
		g.err = fmt.Errorf(f, a...)
	}
}

func (g *groundEval) zero(t types.Type) interface{} {
	switch u := t.Underlying().(type) {
	case *types.Basic:
		switch {
		case u.Info()&types.IsBoolean != 0:
			return false
		case u.Info()&types.IsString != 0:
			return ""
		case u.Info()&types.IsNumeric != 0:
			return int64(0)
		}
		return nil
	case *types.Struct:
		o := &gobj{fields: map[string]interface{}{}, typ: t}
		for i := 0; i < u.NumFields(); i++ {
			o.fields[u.Field(i).Name()] = g.zero(u.Field(i).Type())
		}
		return o
	case *types.Array:
		o := &gobj{typ: t}
		for i := int64(0); i < u.Len(); i++ {
			o.elems = append(o.elems, g.zero(u.Elem()))
		}
		return o
	}
	return nil
}

func copyVal(v interface{}) interface{} {
	if o, ok := v.(*gobj); ok && o != nil {
		n := &gobj{typ: o.typ, cell: copyVal(o.cell)}
		if o.fields != nil {
			n.fields = map[string]interface{}{}
			for k, x := range o.fields {
				n.fields[k] = copyVal(x)
			}
		}
		for _, x := range o.elems {
			n.elems = append(n.elems, copyVal(x))
		}
		return n
	}
	return v
}

func isValueType(t types.Type) bool {
	switch t.Underlying().(type) {
	case *types.Struct, *types.Array:
		return true
	}
	return false
}

func (g *groundEval) load(p interface{}, t types.Type) interface{} {
	pp, ok := p.(*gptr)
	if !ok || pp == nil || pp.obj == nil {
		g.fail("load through %T", p)
		return nil
	}
	var v interface{}
	switch {
	case pp.field != "":
		v = pp.obj.fields[pp.field]
	case pp.idx >= 0:
		if pp.idx >= len(pp.obj.elems) {
			g.fail("index out of range in ground evaluation")
			return nil
		}
		v = pp.obj.elems[pp.idx]
	default:
		if pp.obj.fields != nil || pp.obj.elems != nil {
			v = pp.obj // whole struct / array
		} else {
			v = pp.obj.cell
		}
	}
	if isValueType(t) {
		return copyVal(v)
	}
	return v
}

func (g *groundEval) store(p interface{}, v interface{}, t types.Type) {
	pp, ok := p.(*gptr)
	if !ok || pp == nil || pp.obj == nil {
		g.fail("store through %T", p)
		return
	}
	if isValueType(t) {
		v = copyVal(v)
	}
	switch {
	case pp.field != "":
		pp.obj.fields[pp.field] = v
	case pp.idx >= 0:
		pp.obj.elems[pp.idx] = v
	default:
		if o, ok := v.(*gobj); ok && (pp.obj.fields != nil || pp.obj.elems != nil) && o != nil {
			pp.obj.fields, pp.obj.elems = o.fields, o.elems
		} else {
			pp.obj.cell = v
		}
	}
}

func (g *groundEval) constVal(c *ssa.Const) interface{} {
	if c.Value == nil {
		return g.zero(c.Type())
	}
	switch c.Value.Kind() {
	case constant.Bool:
		return constant.BoolVal(c.Value)
	case constant.String:
		return constant.StringVal(c.Value)
	case constant.Int:
		n, _ := constant.Int64Val(c.Value)
		return n
	}
	return &gopaque{"const " + c.Value.String()}
}

// call interprets fn on concrete arguments.
func (g *groundEval) call(fn *ssa.Function, args []interface{}, bindings []interface{}) []interface{} {
	if g.err != nil {
		return nil
	}
	if fn.Blocks == nil || fn.Pkg == nil || fn.Pkg.Pkg.Path() != g.pkgPath {
		g.opaque[fnKey(fn)]++
		n := fn.Signature.Results().Len()
		out := make([]interface{}, n)
		for i := range out {
			out[i] = &gopaque{fnKey(fn)}
		}
		return out
	}
	vals := map[ssa.Value]interface{}{}
	for i, p := range fn.Params {
		if i < len(args) {
			vals[p] = args[i]
		}
	}
	for i, fv := range fn.FreeVars {
		if i < len(bindings) {
			vals[fv] = bindings[i]
		}
	}
	get := func(v ssa.Value) interface{} {
		switch c := v.(type) {
		case *ssa.Const:
			return g.constVal(c)
		case *ssa.Function:
			return &gclosure{fn: c}
		case *ssa.Global:
			return &gopaque{"global " + c.Name()}
		}
		return vals[v]
	}
	b := fn.Blocks[0]
	var prev *ssa.BasicBlock
	for {
		for _, in := range b.Instrs {
			g.steps++
			if g.steps > 2000000 {
				g.fail("ground evaluation does not terminate")
			}
			if g.err != nil {
				return nil
			}
			switch i := in.(type) {
			case *ssa.DebugRef:
			case *ssa.Phi:
				for k, p := range b.Preds {
					if p == prev {
						vals[i] = get(i.Edges[k])
					}
				}
			case *ssa.Alloc:
				et := ptrElem(i.Type())
				o := &gobj{typ: et}
				if z, ok := g.zero(et).(*gobj); ok && z != nil {
					o = z
				} else {
					o.cell = g.zero(et)
				}
				vals[i] = &gptr{obj: o, idx: -1}
			case *ssa.FieldAddr:
				p, ok := get(i.X).(*gptr)
				if !ok || p == nil {
					g.fail("FieldAddr on %T", get(i.X))
					return nil
				}
				var base *gobj
				switch {
				case p.field != "":
					base, _ = p.obj.fields[p.field].(*gobj)
				case p.idx >= 0:
					base, _ = p.obj.elems[p.idx].(*gobj)
				default:
					base = p.obj
				}
				if base == nil {
					g.fail("nil struct in ground evaluation")
					return nil
				}
				st := ptrElem(i.X.Type()).Underlying().(*types.Struct)
				vals[i] = &gptr{obj: base, field: st.Field(i.Field).Name(), idx: -1}
			case *ssa.Field:
				o, ok := get(i.X).(*gobj)
				if !ok || o == nil {
					g.fail("Field on %T", get(i.X))
					return nil
				}
				st := i.X.Type().Underlying().(*types.Struct)
				vals[i] = o.fields[st.Field(i.Field).Name()]
			case *ssa.IndexAddr:
				idx, _ := get(i.Index).(int64)
				switch x := get(i.X).(type) {
				case *gptr: // pointer to array
					var arr *gobj
					if x.field == "" && x.idx < 0 {
						arr = x.obj
					}
					if arr == nil || int(idx) >= len(arr.elems) {
						g.fail("IndexAddr out of range")
						return nil
					}
					vals[i] = &gptr{obj: arr, idx: int(idx)}
				case *gslice:
					if x == nil || int(idx) >= x.len {
						g.fail("slice index out of range in ground evaluation")
						return nil
					}
					vals[i] = &gptr{obj: x.arr, idx: x.off + int(idx)}
				default:
					g.fail("IndexAddr on %T", x)
					return nil
				}
			case *ssa.Slice:
				switch x := get(i.X).(type) {
				case *gptr:
					lo, hi := 0, len(x.obj.elems)
					if i.Low != nil {
						n, _ := get(i.Low).(int64)
						lo = int(n)
					}
					if i.High != nil {
						n, _ := get(i.High).(int64)
						hi = int(n)
					}
					vals[i] = &gslice{arr: x.obj, off: lo, len: hi - lo}
				case *gslice:
					lo, hi := 0, x.len
					if i.Low != nil {
						n, _ := get(i.Low).(int64)
						lo = int(n)
					}
					if i.High != nil {
						n, _ := get(i.High).(int64)
						hi = int(n)
					}
					vals[i] = &gslice{arr: x.arr, off: x.off + lo, len: hi - lo}
				default:
					g.fail("Slice of %T", x)
					return nil
				}
			case *ssa.Store:
				g.store(get(i.Addr), get(i.Val), i.Val.Type())
			case *ssa.UnOp:
				switch i.Op {
				case token.MUL:
					vals[i] = g.load(get(i.X), i.Type())
				case token.NOT:
					bv, _ := get(i.X).(bool)
					vals[i] = !bv
				default:
					g.fail("unary %s in ground evaluation", i.Op)
				}
			case *ssa.BinOp:
				vals[i] = g.binop(i.Op, get(i.X), get(i.Y))
			case *ssa.MakeMap:
				vals[i] = &gmap{m: map[interface{}]interface{}{}}
			case *ssa.MapUpdate:
				m, ok := get(i.Map).(*gmap)
				if !ok || m == nil {
					g.fail("MapUpdate on %T", get(i.Map))
					return nil
				}
				k := get(i.Key)
				if _, dup := m.m[k]; !dup {
					m.keys = append(m.keys, k)
				}
				m.m[k] = get(i.Value)
			case *ssa.Lookup:
				m, ok := get(i.X).(*gmap)
				if !ok || m == nil {
					g.fail("Lookup on %T", get(i.X))
					return nil
				}
				v, has := m.m[get(i.Index)]
				if !has {
					t := i.Type()
					if i.CommaOk {
						t = t.(*types.Tuple).At(0).Type()
					}
					v = g.zero(t)
				}
				if i.CommaOk {
					vals[i] = []interface{}{v, has}
				} else {
					vals[i] = v
				}
			case *ssa.Extract:
				t, _ := get(i.Tuple).([]interface{})
				if i.Index < len(t) {
					vals[i] = t[i.Index]
				}
			case *ssa.MakeInterface:
				vals[i] = get(i.X)
			case *ssa.ChangeType:
				vals[i] = get(i.X)
			case *ssa.ChangeInterface:
				vals[i] = get(i.X)
			case *ssa.Convert:
				vals[i] = get(i.X)
			case *ssa.MakeClosure:
				cl := &gclosure{fn: i.Fn.(*ssa.Function)}
				for _, bnd := range i.Bindings {
					cl.bindings = append(cl.bindings, get(bnd))
				}
				vals[i] = cl
			case *ssa.Range:
				m, ok := get(i.X).(*gmap)
				if !ok {
					g.fail("range over %T in ground evaluation", get(i.X))
					return nil
				}
				pos := 0
				vals[i] = []interface{}{m, &pos}
			case *ssa.Next:
				it, _ := get(i.Iter).([]interface{})
				m := it[0].(*gmap)
				pos := it[1].(*int)
				if *pos < len(m.keys) {
					k := m.keys[*pos]
					*pos++
					vals[i] = []interface{}{true, k, m.m[k]}
				} else {
					vals[i] = []interface{}{false, nil, nil}
				}
			case *ssa.Call:
				var args []interface{}
				for _, a := range i.Call.Args {
					args = append(args, get(a))
				}
				if bi, ok := i.Call.Value.(*ssa.Builtin); ok {
					switch bi.Name() {
					case "len":
						switch x := args[0].(type) {
						case *gslice:
							if x == nil {
								vals[i] = int64(0)
							} else {
								vals[i] = int64(x.len)
							}
						case string:
							vals[i] = int64(len(x))
						case *gmap:
							vals[i] = int64(len(x.keys))
						default:
							vals[i] = int64(0)
						}
					default:
						g.fail("builtin %s in ground evaluation", bi.Name())
					}
					continue
				}
				var res []interface{}
				if i.Call.IsInvoke() {
					g.opaque["interface call "+i.Call.Method.Name()]++
					res = []interface{}{&gopaque{"invoke"}}
				} else if callee := i.Call.StaticCallee(); callee != nil {
					var bnd []interface{}
					if mc, ok := i.Call.Value.(*ssa.MakeClosure); ok {
						bnd = get(mc).(*gclosure).bindings
					}
					res = g.call(callee, args, bnd)
				} else if cl, ok := get(i.Call.Value).(*gclosure); ok && cl != nil {
					res = g.call(cl.fn, args, cl.bindings)
				} else {
					g.fail("call through %T in ground evaluation", get(i.Call.Value))
					return nil
				}
				if i.Call.Signature().Results().Len() == 1 {
					if len(res) > 0 {
						vals[i] = res[0]
					}
				} else {
					vals[i] = res
				}
			case *ssa.Return:
				var out []interface{}
				for _, r := range i.Results {
					out = append(out, get(r))
				}
				return out
			case *ssa.If:
				c, _ := get(i.Cond).(bool)
				prev = b
				if c {
					b = b.Succs[0]
				} else {
					b = b.Succs[1]
				}
				goto next
			case *ssa.Jump:
				prev = b
				b = b.Succs[0]
				goto next
			default:
				g.fail("instruction %T (%s) not supported by the ground evaluator in %s", in, in, fn.Name())
				return nil
			}
		}
		g.fail("block without terminator")
		return nil
	next:
	}
}

func (g *groundEval) binop(op token.Token, x, y interface{}) interface{} {
	switch a := x.(type) {
	case int64:
		b, _ := y.(int64)
		switch op {
		case token.ADD:
			return a + b
		case token.SUB:
			return a - b
		case token.LSS:
			return a < b
		case token.LEQ:
			return a <= b
		case token.GTR:
			return a > b
		case token.GEQ:
			return a >= b
		case token.EQL:
			return a == b
		case token.NEQ:
			return a != b
		}
	case string:
		b, _ := y.(string)
		switch op {
		case token.ADD:
			return a + b
		case token.EQL:
			return a == b
		case token.NEQ:
			return a != b
		}
	case bool:
		b, _ := y.(bool)
		switch op {
		case token.EQL:
			return a == b
		case token.NEQ:
			return a != b
		}
	}
	// pointer / nil comparisons
	isNil := func(v interface{}) bool {
		switch t := v.(type) {
		case nil:
			return true
		case *gptr:
			return t == nil
		case *gclosure:
			return t == nil
		case *gslice:
			return t == nil
		case *gmap:
			return t == nil
		case *gobj:
			return t == nil
		}
		return false
	}
	switch op {
	case token.EQL:
		if isNil(x) || isNil(y) {
			return isNil(x) && isNil(y)
		}
		return x == y
	case token.NEQ:
		if isNil(x) || isNil(y) {
			return !(isNil(x) && isNil(y))
		}
		return x != y
	}
	g.fail("binary %s on %T,%T in ground evaluation", op, x, y)
	return nil
}

// ---- the grammar table as ground data

type gElem struct {
	IsSymbol bool
	Symbol   string
	Token    int64
}
type gClause struct {
	Elems    []gElem
	HasStart bool
	HasEnd   bool
	HasElem  bool
}
type gTable struct {
	Symbols []string
	Rules   map[string][]gClause
}

// evalGrammar runs a niladic function of package bql/grammar returning *Grammar and decodes it.
func (e *Engine) evalGrammar(fnName string) (*gTable, map[string]int, error) {
	pkg := "github.com/google/badwolf/bql/grammar"
	fn := e.funcs[pkg+"."+fnName]
	if fn == nil {
		return nil, nil, fmt.Errorf("function %s.%s not found", pkg, fnName)
	}
	g := &groundEval{e: e, pkgPath: pkg, opaque: map[string]int{}}
	res := g.call(fn, nil, nil)
	if g.err != nil {
		return nil, nil, g.err
	}
	if len(res) != 1 {
		return nil, nil, fmt.Errorf("%s returned %d values", fnName, len(res))
	}
	p, ok := res[0].(*gptr)
	if !ok || p == nil {
		return nil, nil, fmt.Errorf("%s returned %T", fnName, res[0])
	}
	m, ok := p.obj.cell.(*gmap)
	if !ok {
		return nil, nil, fmt.Errorf("%s: result does not point to a map (%T)", fnName, p.obj.cell)
	}
	t := &gTable{Rules: map[string][]gClause{}}
	for _, k := range m.keys {
		sym, _ := k.(string)
		t.Symbols = append(t.Symbols, sym)
		sl, ok := m.m[k].(*gslice)
		if !ok {
			return nil, nil, fmt.Errorf("rule %s is %T", sym, m.m[k])
		}
		var cls []gClause
		for i := 0; sl != nil && i < sl.len; i++ {
			cp, ok := sl.arr.elems[sl.off+i].(*gptr)
			if !ok || cp == nil {
				return nil, nil, fmt.Errorf("rule %s: nil clause", sym)
			}
			co := cp.obj
			var c gClause
			if es, ok := co.fields["Elements"].(*gslice); ok && es != nil {
				for j := 0; j < es.len; j++ {
					eo, ok := es.arr.elems[es.off+j].(*gobj)
					if !ok {
						return nil, nil, fmt.Errorf("rule %s: element is %T", sym, es.arr.elems[es.off+j])
					}
					ge := gElem{}
					ge.IsSymbol, _ = eo.fields["isSymbol"].(bool)
					ge.Symbol, _ = eo.fields["symbol"].(string)
					ge.Token, _ = eo.fields["tokenType"].(int64)
					c.Elems = append(c.Elems, ge)
				}
			}
			notNil := func(v interface{}) bool {
				switch x := v.(type) {
				case nil:
					return false
				case *gclosure:
					return x != nil
				case *gopaque:
					return x != nil
				}
				return v != nil
			}
			c.HasStart, c.HasEnd, c.HasElem = notNil(co.fields["ProcessStart"]), notNil(co.fields["ProcessEnd"]), notNil(co.fields["ProcessedElement"])
			cls = append(cls, c)
		}
		t.Rules[sym] = cls
	}
	return t, g.opaque, nil
}

var _ = strings.Join
