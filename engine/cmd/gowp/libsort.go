package main

// sort.Sort(x) for a value x of a struct type T implementing sort.Interface whose Swap exchanges
// two elements of one slice field F of T. Assumed contract of the library function (trusted, listed):
//
//   - Sort calls only x.Len, x.Less(i, j) and x.Swap(i, j) with 0 <= i, j < x.Len(): the precondition
//     of Less for all such indices is an obligation at the call;
//   - afterwards the slice F holds a permutation of its former elements (perm), nothing else changed;
//   - IF Less is a strict weak order on the elements (irreflexive, transitive, incomparability
//     transitive - stated over the indices of the slice before the call), THEN no later element is
//     Less than an earlier one. Without that hypothesis nothing is assumed about the order: sort.Sort
//     gives no guarantee for an inconsistent comparison.
//
// Less(i, j) is taken from the functional postcondition `ensures result == E` of T.Less. Because
// slices are values in this model, the sorted slice is written back to the location the field F of x
// was loaded from (x built as T{F: *loc, ...} right before the call); any other shape is rejected.

import (
	"fmt"
	"go/token"
	"go/types"
	"strings"

	"golang.org/x/tools/go/ssa"
)

func init() {
	libModels["sort.Sort"] = sortSortModel
	libTouches["sort.Sort"] = []string{"*all"}
	libModels["log.Fatalf"] = func(fr *frame, in ssa.Instruction, c *ssa.CallCommon, args []Val, st *State, reach string) Val {
		o := fr.fc.oblig("safety", "safety.fatal", "false", reach, in.Pos(), nil)
		o.Src = "log.Fatalf reachable (terminates the process)"
		fr.fc.factIf(reach, "false") // the process ends here
		return nil
	}
	libModels["log.Fatal"] = libModels["log.Fatalf"]
	// strings.Join: some string (a function of its arguments; which one is not modelled)
	libModels["strings.Join"] = func(fr *frame, in ssa.Instruction, c *ssa.CallCommon, args []Val, st *State, reach string) Val {
		return fr.fc.fresh("joined", SString)
	}
}

// swapField: the index of the slice field of struct type T whose elements T.Swap stores to.
func (e *Engine) swapField(T types.Type) (int, string) {
	var swap *ssa.Function
	for _, k := range []string{typeKeyRecv(T, false) + ".Swap", typeKeyRecv(T, true) + ".Swap"} {
		if f := e.funcs[k]; f != nil {
			swap = f
		}
	}
	if swap == nil || swap.Blocks == nil {
		return -1, "no Swap method with a body"
	}
	field := -1
	for _, b := range swap.Blocks {
		for _, in := range b.Instrs {
			st, ok := in.(*ssa.Store)
			if !ok {
				continue
			}
			ia, ok := st.Addr.(*ssa.IndexAddr)
			if !ok {
				continue // stores to locals (parameter spill) are irrelevant
			}
			k := -1
			switch x := ia.X.(type) {
			case *ssa.Field:
				if x.X == swap.Params[0] {
					k = x.Field
				}
			case *ssa.UnOp:
				if fa, ok := x.X.(*ssa.FieldAddr); ok {
					k = fa.Field
				}
			}
			if k < 0 || (field >= 0 && field != k) {
				return -1, "Swap stores to something other than the elements of one slice field"
			}
			field = k
		}
	}
	if field < 0 {
		return -1, "Swap stores nothing"
	}
	return field, ""
}

func typeKeyRecv(T types.Type, ptr bool) string {
	n, ok := T.(*types.Named)
	if !ok {
		return "?"
	}
	pkg := ""
	if n.Obj().Pkg() != nil {
		pkg = n.Obj().Pkg().Path()
	}
	if ptr {
		return pkg + ".(*" + n.Obj().Name() + ")"
	}
	return pkg + ".(" + n.Obj().Name() + ")"
}

func sortSortModel(fr *frame, in ssa.Instruction, c *ssa.CallCommon, args []Val, st *State, reach string) Val {
	fc := fr.fc
	e := fc.e
	bad := func(f string, a ...interface{}) Val {
		fc.unsupported("sort.Sort in %s: %s", fr.fn.Name(), fmt.Sprintf(f, a...))
		fr.havocAll(st)
		return nil
	}
	mi, ok := c.Args[0].(*ssa.MakeInterface)
	if !ok {
		return bad("the argument is not built at the call")
	}
	T := mi.X.Type()
	stT, ok := T.Underlying().(*types.Struct)
	if !ok {
		return bad("the argument is not a struct value")
	}
	xs, ok := fr.val(mi.X).(Term)
	if !ok {
		return bad("no symbolic value for the argument")
	}
	k, why := e.swapField(T)
	if k < 0 {
		return bad("%s", why)
	}
	// where was field k loaded from?
	ld, ok := mi.X.(*ssa.UnOp)
	if !ok || ld.Op != token.MUL {
		return bad("the argument is not a composite literal")
	}
	al, ok := ld.X.(*ssa.Alloc)
	if !ok {
		return bad("the argument is not a composite literal")
	}
	var src ssa.Value
	for _, ref := range *al.Referrers() {
		fa, ok := ref.(*ssa.FieldAddr)
		if !ok || fa.Field != k {
			continue
		}
		for _, r2 := range *fa.Referrers() {
			if s, ok := r2.(*ssa.Store); ok && s.Addr == fa {
				if src != nil {
					return bad("the slice field is assigned more than once")
				}
				src = s.Val
			}
		}
	}
	sld, ok := src.(*ssa.UnOp)
	if src == nil || !ok || sld.Op != token.MUL {
		return bad("the slice to sort is not loaded from a location right before the call")
	}
	sn := e.sortOf(T)
	si := e.structs[typeKey(T)]
	fieldName := stT.Field(k).Name()
	old := Term{fmt.Sprintf("(%s$%s %s)", sn, fieldName, xs.S), e.sortOf(stT.Field(k).Type())}
	old = fc.define("sort_old", old)
	withSlice := func(s string) Term {
		var fs []string
		for _, f := range si.fields {
			if f.Name() == fieldName {
				fs = append(fs, s)
			} else {
				fs = append(fs, fmt.Sprintf("(%s$%s %s)", sn, f.Name(), xs.S))
			}
		}
		return Term{"(mk" + sn + " " + strings.Join(fs, " ") + ")", sn}
	}
	lessCt := e.specs.Funcs[typeKeyRecv(T, false)+".Less"]
	lessFn := e.funcs[typeKeyRecv(T, false)+".Less"]
	if lessCt == nil || lessFn == nil {
		return bad("no contract for %s.Less", shortType(T))
	}
	// Less(recv, i, j) as a term, and its precondition
	lessOf := func(recv Term, i, j string) (string, string, error) {
		env := &Env{fc: fc, pkg: lessCt.Pkg, vars: map[string]CVal{}, bound: map[string]CVal{}, st: st, old: st}
		env.vars[lessFn.Params[0].Name()] = CVal{recv, T}
		env.vars[lessFn.Params[1].Name()] = CVal{Term{i, SInt}, types.Typ[types.Int]}
		env.vars[lessFn.Params[2].Name()] = CVal{Term{j, SInt}, types.Typ[types.Int]}
		var pre []string
		for _, cl := range lessCt.Requires {
			t, err := env.evalBool(cl.Expr)
			if err != nil {
				return "", "", err
			}
			pre = append(pre, t.S)
		}
		for _, cl := range lessCt.Ensures {
			b, ok := cl.Expr.(*EBin)
			if !ok || b.Op != "==" {
				continue
			}
			if id, ok := b.L.(*EIdent); ok && (id.Name == "result" || id.Name == "result0") {
				v, err := env.eval(b.R)
				if err != nil {
					return "", "", err
				}
				return v.T.S, and(pre...), nil
			}
		}
		return "", "", fmt.Errorf("the contract of %s.Less has no clause of the form `ensures result == E`", shortType(T))
	}
	n := "(slen " + old.S + ")"
	inRange := func(vs ...string) string {
		var cs []string
		for _, v := range vs {
			cs = append(cs, "(<= 0 "+v+")", "(< "+v+" "+n+")")
		}
		return and(cs...)
	}
	recvOld := withSlice(old.S)
	lab, preab, err := lessOf(recvOld, "a", "b")
	if err != nil {
		return bad("%v", err)
	}
	o := fc.oblig("pre", "call.sort.Sort.less-pre", fmt.Sprintf("(forall ((a Int) (b Int)) (=> %s %s))", inRange("a", "b"), preab), reach, in.Pos(), nil)
	o.Src = "the precondition of " + shortType(T) + ".Less holds for every pair of indices sort.Sort may compare"
	// the sorted slice
	nw := fc.fresh("sorted", old.Sort)
	fc.fact(fmt.Sprintf("(and (= (soff %s) 0) (<= 0 (slen %s)))", nw.S, nw.S))
	fc.factIf(reach, fc.permTerm(old, nw))
	fc.factIf(reach, eq("(slen "+nw.S+")", n))
	laa, _, _ := lessOf(recvOld, "a", "a")
	lbc, _, _ := lessOf(recvOld, "b", "c")
	lac, _, _ := lessOf(recvOld, "a", "c")
	lba, _, _ := lessOf(recvOld, "b", "a")
	lcb, _, _ := lessOf(recvOld, "c", "b")
	lca, _, _ := lessOf(recvOld, "c", "a")
	swo := fc.define("less_is_swo", Term{and(
		fmt.Sprintf("(forall ((a Int)) (=> %s (not %s)))", inRange("a"), laa),
		fmt.Sprintf("(forall ((a Int) (b Int) (c Int)) (=> (and %s %s %s) %s))", inRange("a", "b", "c"), lab, lbc, lac),
		fmt.Sprintf("(forall ((a Int) (b Int) (c Int)) (=> (and %s (not %s) (not %s) (not %s) (not %s)) (and (not %s) (not %s))))", inRange("a", "b", "c"), lab, lba, lbc, lcb, lac, lca),
	), SBool})
	recvNew := withSlice(nw.S)
	lji, _, err := lessOf(recvNew, "j", "i")
	if err != nil {
		return bad("%v", err)
	}
	fc.factIf(reach, fmt.Sprintf("(=> %s (forall ((i Int) (j Int)) (! (=> (and (<= 0 i) (< i j) (< j %s)) (not %s)) :pattern (%s %s))))", swo.S, n, lji, fc.slcAt(nw, "i").S, fc.slcAt(nw, "j").S))
	// write back
	switch at := fr.val(sld.X).(type) {
	case *PtrField:
		a := fc.heapGet(st, at.Arr, arr(SInt, at.Sort))
		fr.frameCheck(st, at.Arr, at.Base, reach, in.Pos())
		fc.heapSet(st, at.Arr, Term{store(a.S, at.Base.S, nw.S), a.Sort})
	case Term:
		fr.storeRef(st, at, ptrElem(sld.X.Type()), nw, reach, in.Pos())
	default:
		return bad("the slice to sort is loaded through %T", at)
	}
	fc.trusted["sort.Sort (assumed): calls only Len/Less/Swap with indices in range; the slice ends as a permutation of its former elements; if Less is a strict weak order on them, no later element is Less than an earlier one - otherwise nothing is assumed about the order"] = true
	fc.assumes = append(fc.assumes, "sort.Sort permutes the slice field of its argument in place; the result is written back to the location that field was loaded from (aliasing of backing arrays is not modelled)")
	return nil
}
