package main

// Parser for //@ contract blocks. Contract files are comment-only Go files
// (zz_verif_contracts.go, build tag verif) inside the packages of /repo, and *.spec
// files under /verif/spec (same syntax without the leading //@).

import (
	"bufio"
	"fmt"
	"os"
	"path/filepath"
	"regexp"
	"strings"
)

type Clause struct {
	Kind  string // requires, ensures, invariant, decreases, assert-free...
	Name  string // optional label: "ensures[start]: ..." -> start
	Expr  Expr
	Src   string
	Props []string // properties this clause serves (defaults to the function's)
	File  string
	Line  int
}

type LoopSpec struct {
	Invariants []*Clause
	Decreases  []*Clause // lexicographic tuple
}

type FuncContract struct {
	Key       string // canonical: pkgpath.(*T).name or pkgpath.name or pkgpath.name$1
	Pkg       string
	Props     []string
	Requires  []*Clause
	Captures  []*Clause // closures: facts about the captured variables, checked where the closure is created
	Ensures   []*Clause
	Modifies  []Expr
	ModAll    []string // whole heap arrays: "lexer.pos"
	Loops     map[int]*LoopSpec
	InlineLoops map[string]map[int]*LoopSpec // loop <callee>:<n> ...: loops of a callee inlined into this function
	Trusted   bool // contract assumed, body not verified (listed)
	Pure      bool
	NoBody    bool // do not verify body (interface method etc.)
	Overflow  bool
	Terminate bool // recursion / loops need decreases
	File      string
	Line      int
	Decreases []*Clause   // for recursion
	Ghostdef  []*Clause   // ensures clauses that are definitions of ghost state
	Ghostset  []*GhostSet // ghost assignments performed when the function returns
	NoWrite   []*Clause   // nowrite[C07] loc: the location is never written, not even temporarily
	HeapFun   bool        // the result is a function of the arguments and the heap: call("f", args) names it
	AtCalls   []*AtCall   // atcall <callee> assert[label] <expr>: checked at every call of <callee> in the body
	Opts      map[string]string
}

// AtCall: an assertion attached to the call sites of a callee inside the function under contract.
// The expression is evaluated in the state before the call; the callee's parameter names denote
// the actual arguments.
type AtCall struct {
	Callee string
	Clause *Clause
}

type GhostSet struct {
	Loc  Expr
	Val  Expr
	Src  string
	Cond Expr
}

type SpecFunc struct {
	Pkg    string
	Name   string
	Params []QVar
	Result string
	Body   Expr // nil: uninterpreted
	Macro  bool // state-dependent definition, expanded at use
	Opaque bool // pred: a state-dependent definition kept behind a function symbol (see callPred)
	Declared bool // fdef: a declared function symbol plus a defining axiom (usable in quantifier patterns)
	File   string
	Line   int
}

type Lemma struct {
	Pkg    string
	Params []QVar // free variables of the lemma (reported in counterexamples)
	Using  []string // axioms / lemmas assumed in the proof (empty: all axioms)
	Cover  bool     // vacuity guard: must NOT be provable
	Name   string
	Expr   Expr
	Src    string
	Props  []string
	Axiom  bool
	File   string
	Line   int
	Solver string // hint
}

type GlobalInv struct {
	Pkg  string
	Name string
	By   string // establishing function (init#1)
	Expr Expr
	Src  string
}

// FuncTypeSpec: what every value of a named function type promises: calling it leaves the fields of
// the listed struct types untouched (everything else may change).
type FuncTypeSpec struct {
	Pkg, Type string
	Preserves []string // struct types, or "package <path>": everything owned by that package
	Requires  []*Clause // over $0, $1, ...: checked at every call through the type, assumed by every function of that type
}

// PoolInv: invariant of the values held by a package-level sync.Pool (variable x).
type PoolInv struct {
	Pkg, Var string
	Inv      Expr
	Src      string
}

// FieldInv: an invariant of the objects of a struct type that mentions only the listed fields, and a
// closed list of functions that may write those fields.
//   fieldinv[name] T.f,g writers w1 w2: <expr over x>
type FieldInv struct {
	Pkg, Name, Type string
	Fields          []string
	Writers         []string // function keys (package-qualified on load)
	Expr            Expr
	Src             string
	Props           []string
}

type GhostField struct {
	Struct string // pkgpath.Type
	Name   string
	Type   string
}

type Specs struct {
	Funcs      map[string]*FuncContract
	Spec       map[string]*SpecFunc
	Lemmas     []*Lemma
	Ghost      map[string]*GhostField // key: pkgpath.Type.#name
	GlobalInvs []*GlobalInv
	Pools      []*PoolInv
	FuncTypes  []*FuncTypeSpec
	FieldInvs  []*FieldInv
	GhostVars  map[string]string // $name -> sort
	Files      []string
	Guarded    []string
	LockGuards map[string]*LockGuard // key: pkgpath.Type
}

// LockGuard: `guard T by mu: f g h` - the maps held in fields f, g, h of a T (and the maps stored in
// them) are read only while T.mu is held (either mode) and written only while it is write-held.
type LockGuard struct {
	Pkg, Type, Mutex string
	Fields           map[string]bool
	Props            []string
	Src              string
}

func NewSpecs() *Specs {
	return &Specs{Funcs: map[string]*FuncContract{}, Spec: map[string]*SpecFunc{}, Ghost: map[string]*GhostField{}, GhostVars: map[string]string{}}
}

var reFuncHdr = regexp.MustCompile(`^func\s+(\(\s*\w*\s*(\*?)\s*(\w+)\s*\)\s*)?([\w$.#]+)\s*$`)
var reLabel = regexp.MustCompile(`^(\w+)\[([\w.\-@,]+)\]\s*`)

// LoadSpecFile parses one file. pkgPath is the import path of the package the file
// belongs to ("" for /verif/spec files, which then must use `package <path>` lines).
func (sp *Specs) LoadSpecFile(path, pkgPath string) error {
	f, err := os.Open(path)
	if err != nil {
		return err
	}
	defer f.Close()
	sp.Files = append(sp.Files, path)
	inRepo := strings.HasSuffix(path, ".go")
	sc := bufio.NewScanner(f)
	sc.Buffer(make([]byte, 1<<20), 1<<20)
	var cur *FuncContract
	var curProps []string
	ln := 0
	var pending string
	pendingLine := 0
	flush := func() error { return nil }
	process := func(line string, ln int) error {
		line = strings.TrimSpace(line)
		if line == "" || strings.HasPrefix(line, "--") {
			return nil
		}
		fail := func(f string, a ...interface{}) error {
			return fmt.Errorf("%s:%d: %s", path, ln, fmt.Sprintf(f, a...))
		}
		word := line
		rest := ""
		if i := strings.IndexAny(line, " \t"); i >= 0 {
			word, rest = line[:i], strings.TrimSpace(line[i+1:])
		}
		label := ""
		if m := reLabel.FindStringSubmatch(line); m != nil {
			word, label = m[1], m[2]
			rest = strings.TrimSpace(line[len(m[0]):])
		}
		rest = strings.TrimPrefix(rest, ":")
		rest = strings.TrimSpace(rest)
		mk := func(kind string) (*Clause, error) {
			e, err := ParseExpr(rest)
			if err != nil {
				return nil, fail("%v", err)
			}
			// ensures[name@C10,C03]: the clause serves only the listed properties
			name, props := label, []string(nil)
			if i := strings.Index(label, "@"); i >= 0 {
				name, props = label[:i], strings.Split(label[i+1:], ",")
			}
			return &Clause{Kind: kind, Name: name, Expr: e, Src: rest, Props: props, File: path, Line: ln}, nil
		}
		switch word {
		case "package":
			pkgPath = rest
			cur = nil
		case "props":
			// default property set of the functions, lemmas and axioms that follow in this file
			curProps = strings.Fields(rest)
			cur = nil
		case "guard":
			// guard T by mu: f g h
			hd := strings.SplitN(rest, ":", 2)
			w := strings.Fields(hd[0])
			if len(hd) != 2 || len(w) != 3 || w[1] != "by" {
				return fail("guard T by mu: field field ...")
			}
			g := &LockGuard{Pkg: pkgPath, Type: w[0], Mutex: w[2], Fields: map[string]bool{}, Props: curProps, Src: rest}
			for _, f := range strings.Fields(hd[1]) {
				g.Fields[f] = true
			}
			if sp.LockGuards == nil {
				sp.LockGuards = map[string]*LockGuard{}
			}
			sp.LockGuards[pkgPath+"."+w[0]] = g
			cur = nil
		case "func":
			m := reFuncHdr.FindStringSubmatch(line)
			if m == nil {
				return fail("bad func header %q", line)
			}
			key := pkgPath + "."
			if m[3] != "" {
				if m[2] == "*" {
					key += "(*" + m[3] + ")."
				} else {
					key += "(" + m[3] + ")."
				}
			}
			key += m[4]
			cur = &FuncContract{Key: key, Pkg: pkgPath, Loops: map[int]*LoopSpec{}, File: path, Line: ln, Props: curProps, Opts: map[string]string{}}
			if _, dup := sp.Funcs[key]; dup {
				return fail("duplicate contract for %s", key)
			}
			sp.Funcs[key] = cur
		case "requires", "ensures", "ghostdef", "captures":
			if cur == nil {
				return fail("%s outside func", word)
			}
			c, err := mk(word)
			if err != nil {
				return err
			}
			switch word {
			case "requires":
				cur.Requires = append(cur.Requires, c)
			case "captures":
				cur.Captures = append(cur.Captures, c)
			case "ensures":
				cur.Ensures = append(cur.Ensures, c)
			case "ghostdef":
				cur.Ghostdef = append(cur.Ghostdef, c)
			}
		case "nowrite":
			if cur == nil {
				return fail("nowrite outside func")
			}
			e, err := ParseExpr(rest)
			if err != nil {
				return fail("%v", err)
			}
			cur.NoWrite = append(cur.NoWrite, &Clause{Kind: "nowrite", Name: label, Expr: e, Src: rest, Props: strings.Split(label, ","), File: path, Line: ln})
		case "ghostset":
			// ghostset x.#g = expr
			if cur == nil {
				return fail("ghostset outside func")
			}
			i := strings.Index(rest, " = ")
			if i < 0 {
				return fail("ghostset loc = expr")
			}
			le, err := ParseExpr(rest[:i])
			if err != nil {
				return fail("%v", err)
			}
			ve, err := ParseExpr(rest[i+3:])
			if err != nil {
				return fail("%v", err)
			}
			cur.Ghostset = append(cur.Ghostset, &GhostSet{Loc: le, Val: ve, Src: rest})
		case "decreases":
			if cur == nil {
				return fail("decreases outside func")
			}
			for _, part := range splitTop(rest) {
				e, err := ParseExpr(part)
				if err != nil {
					return fail("%v", err)
				}
				cur.Decreases = append(cur.Decreases, &Clause{Kind: "decreases", Expr: e, Src: part, File: path, Line: ln})
			}
		case "modifies":
			if cur == nil {
				return fail("modifies outside func")
			}
			for _, part := range splitTop(rest) {
				part = strings.TrimSpace(part)
				if strings.HasPrefix(part, "heap(") && strings.HasSuffix(part, ")") {
					cur.ModAll = append(cur.ModAll, part[5:len(part)-1])
					continue
				}
				e, err := ParseExpr(part)
				if err != nil {
					return fail("%v", err)
				}
				cur.Modifies = append(cur.Modifies, e)
			}
		case "loop":
			if cur == nil {
				return fail("loop outside func")
			}
			var n int
			var kind string
			parts := strings.SplitN(rest, " ", 3)
			if len(parts) < 3 {
				return fail("loop <n> invariant|decreases <expr>")
			}
			inlineOf := ""
			if i := strings.Index(parts[0], ":"); i > 0 {
				inlineOf, parts[0] = parts[0][:i], parts[0][i+1:]
			}
			if _, err := fmt.Sscanf(parts[0], "%d", &n); err != nil {
				return fail("loop ordinal: %v", err)
			}
			kind = parts[1]
			lbl := ""
			if i := strings.Index(kind, "["); i >= 0 && strings.HasSuffix(kind, "]") {
				lbl = kind[i+1 : len(kind)-1]
				kind = kind[:i]
			}
			var ls *LoopSpec
			if inlineOf != "" {
				if cur.InlineLoops == nil {
					cur.InlineLoops = map[string]map[int]*LoopSpec{}
				}
				if cur.InlineLoops[inlineOf] == nil {
					cur.InlineLoops[inlineOf] = map[int]*LoopSpec{}
				}
				ls = cur.InlineLoops[inlineOf][n]
				if ls == nil {
					ls = &LoopSpec{}
					cur.InlineLoops[inlineOf][n] = ls
				}
			} else {
				ls = cur.Loops[n]
				if ls == nil {
					ls = &LoopSpec{}
					cur.Loops[n] = ls
				}
			}
			switch kind {
			case "invariant":
				e, err := ParseExpr(parts[2])
				if err != nil {
					return fail("%v", err)
				}
				ls.Invariants = append(ls.Invariants, &Clause{Kind: "invariant", Name: lbl, Expr: e, Src: parts[2], File: path, Line: ln})
			case "decreases":
				for _, part := range splitTop(parts[2]) {
					e, err := ParseExpr(part)
					if err != nil {
						return fail("%v", err)
					}
					ls.Decreases = append(ls.Decreases, &Clause{Kind: "decreases", Expr: e, Src: part, File: path, Line: ln})
				}
			default:
				return fail("loop clause kind %q", kind)
			}
		case "trusted":
			cur.Trusted = true
			cur.Opts["trusted"] = rest
		case "nobody":
			cur.NoBody = true
		case "heapfun":
			cur.HeapFun = true
		case "atcall":
			// atcall <callee> assert[label] <expr>
			if cur == nil {
				return fail("atcall outside func")
			}
			parts := strings.SplitN(rest, " ", 3)
			if len(parts) < 3 || !strings.HasPrefix(parts[1], "assert") {
				return fail("atcall <callee> assert[label] <expr>")
			}
			lbl := ""
			if i := strings.Index(parts[1], "["); i >= 0 && strings.HasSuffix(parts[1], "]") {
				lbl = parts[1][i+1 : len(parts[1])-1]
			}
			e, err := ParseExpr(parts[2])
			if err != nil {
				return fail("%v", err)
			}
			var aprops []string
			if i := strings.Index(lbl, "@"); i >= 0 {
				lbl, aprops = lbl[:i], strings.Split(lbl[i+1:], ",")
			}
			cur.AtCalls = append(cur.AtCalls, &AtCall{Callee: parts[0], Clause: &Clause{Kind: "atcall", Name: lbl, Expr: e, Src: parts[2], Props: aprops, File: path, Line: ln}})
		case "pure":
			cur.Pure = true
		case "overflow":
			cur.Overflow = true
		case "opt":
			kv := strings.SplitN(rest, " ", 2)
			if len(kv) == 2 {
				cur.Opts[kv[0]] = kv[1]
			} else {
				cur.Opts[kv[0]] = "true"
			}
		case "spec":
			// spec func name(a T, b U) R            uninterpreted
			// spec def  name(a T) R = expr           pure definition
			// spec macro name(a T) R = expr          state-dependent, expanded at use
			sf, err := parseSpecFunc(rest)
			if err != nil {
				return fail("%v", err)
			}
			sf.File, sf.Line = path, ln
			sf.Pkg = pkgPath
			if _, dup := sp.Spec[sf.Name]; dup {
				return fail("duplicate spec function %s", sf.Name)
			}
			sp.Spec[sf.Name] = sf
		case "axiom", "lemma", "cover":
			name := label
			if name == "" {
				i := strings.Index(rest, ":")
				if i < 0 {
					return fail("%s needs a name", word)
				}
				name, rest = strings.TrimSpace(rest[:i]), strings.TrimSpace(rest[i+1:])
			}
			// optional "using a b c" list and parameter list: name(a T, b U) using ax1 ax2: expr
			var using []string
			if i := strings.Index(name+" ", " using "); i >= 0 {
				using = strings.Fields((name + " ")[i+7:])
				name = strings.TrimSpace(name[:i])
				if len(using) == 0 {
					using = []string{"-"} // explicitly no axioms
				}
			}
			var lparams []QVar
			if i := strings.Index(name, "("); i >= 0 && strings.HasSuffix(name, ")") {
				for _, pp := range splitTop(name[i+1 : len(name)-1]) {
					parts := strings.SplitN(strings.TrimSpace(pp), " ", 2)
					if len(parts) != 2 {
						return fail("bad lemma parameter %q", pp)
					}
					lparams = append(lparams, QVar{parts[0], strings.TrimSpace(parts[1])})
				}
				name = strings.TrimSpace(name[:i])
			}
			e, err := ParseExpr(rest)
			if err != nil {
				return fail("%v", err)
			}
			sp.Lemmas = append(sp.Lemmas, &Lemma{Pkg: pkgPath, Name: name, Params: lparams, Using: using, Cover: word == "cover", Expr: e, Src: rest, Axiom: word == "axiom", File: path, Line: ln, Props: curProps})
		case "functype":
			// functype <Type> preserves <StructType> ...
			parts := strings.Fields(rest)
			if len(parts) >= 3 && parts[1] == "requires" {
				src := strings.TrimSpace(strings.SplitN(rest, "requires", 2)[1])
				e, err := ParseExpr(src)
				if err != nil {
					return fail("%v", err)
				}
				cl := &Clause{Kind: "requires", Expr: e, Src: src, File: path, Line: ln}
				for _, ft := range sp.FuncTypes {
					if ft.Pkg == pkgPath && ft.Type == parts[0] {
						ft.Requires = append(ft.Requires, cl)
						return nil
					}
				}
				sp.FuncTypes = append(sp.FuncTypes, &FuncTypeSpec{Pkg: pkgPath, Type: parts[0], Requires: []*Clause{cl}})
				return nil
			}
			if len(parts) < 3 || parts[1] != "preserves" {
				return fail("functype <Type> preserves <StructType>... | functype <Type> requires <expr over $0, $1, ...>")
			}
			sp.FuncTypes = append(sp.FuncTypes, &FuncTypeSpec{Pkg: pkgPath, Type: parts[0], Preserves: parts[2:]})
		case "pool":
			// pool <var>: <invariant over x>
			i := strings.Index(rest, ":")
			if i < 0 {
				return fail("pool <var>: <invariant over x>")
			}
			src := strings.TrimSpace(rest[i+1:])
			e, err := ParseExpr(src)
			if err != nil {
				return fail("%v", err)
			}
			sp.Pools = append(sp.Pools, &PoolInv{Pkg: pkgPath, Var: strings.TrimSpace(rest[:i]), Inv: e, Src: src})
		case "fieldinv":
			// fieldinv[name] T.f,g writers w1 w2: expr over x
			i := strings.Index(rest, ":")
			if i < 0 {
				return fail("fieldinv[name] T.f,g writers w...: <expr over x>")
			}
			hd := strings.Fields(rest[:i])
			src := strings.TrimSpace(rest[i+1:])
			if len(hd) < 2 || hd[1] != "writers" || !strings.Contains(hd[0], ".") {
				return fail("fieldinv[name] T.f,g writers w...: <expr over x>")
			}
			e, err := ParseExpr(src)
			if err != nil {
				return fail("%v", err)
			}
			k := strings.Index(hd[0], ".")
			fi := &FieldInv{Pkg: pkgPath, Name: label, Type: hd[0][:k], Fields: strings.Split(hd[0][k+1:], ","), Expr: e, Src: src, Props: curProps}
			for _, w := range hd[2:] {
				fi.Writers = append(fi.Writers, pkgPath+"."+w)
			}
			sp.FieldInvs = append(sp.FieldInvs, fi)
		case "globalinv":
			// globalinv[name] by init#1: expr
			if !strings.HasPrefix(rest, "by ") {
				return fail("globalinv[name] by <init function>: <expr>")
			}
			i := strings.Index(rest, ":")
			if i < 0 {
				return fail("globalinv needs ':'")
			}
			by := strings.TrimSpace(rest[3:i])
			src := strings.TrimSpace(rest[i+1:])
			e, err := ParseExpr(src)
			if err != nil {
				return fail("%v", err)
			}
			sp.GlobalInvs = append(sp.GlobalInvs, &GlobalInv{Pkg: pkgPath, Name: label, By: pkgPath + "." + by, Expr: e, Src: src})
		case "ghost":
			// ghost field pkg.Type.#name T
			parts := strings.Fields(rest)
			if len(parts) == 3 && parts[0] == "var" && strings.HasPrefix(parts[1], "$") {
				sp.GhostVars[parts[1]] = parts[2]
				return nil
			}
			if len(parts) != 3 || parts[0] != "field" {
				return fail("ghost field T.#name type")
			}
			i := strings.Index(parts[1], ".#")
			if i < 0 {
				return fail("ghost field T.#name type")
			}
			st := parts[1][:i]
			if !strings.Contains(st, ".") && !strings.Contains(st, "/") {
				st = pkgPath + "." + st
			}
			g := &GhostField{Struct: st, Name: parts[1][i+2:], Type: parts[2]}
			sp.Ghost[g.Struct+".#"+g.Name] = g
		default:
			return fail("unknown directive %q", word)
		}
		return nil
	}
	_ = flush
	for sc.Scan() {
		ln++
		raw := sc.Text()
		var line string
		if inRepo {
			t := strings.TrimSpace(raw)
			if !strings.HasPrefix(t, "//@") {
				continue
			}
			line = strings.TrimPrefix(t, "//@")
		} else {
			line = raw
			if i := strings.Index(line, "//"); i >= 0 && !strings.Contains(line[:i], "\"") {
				line = line[:i]
			}
		}
		// continuation: a line starting with "|" continues the previous one
		lt := strings.TrimSpace(line)
		if strings.HasPrefix(lt, "|") {
			pending += " " + strings.TrimSpace(lt[1:])
			continue
		}
		if pending != "" {
			if err := process(pending, pendingLine); err != nil {
				return err
			}
		}
		pending, pendingLine = line, ln
	}
	if pending != "" {
		if err := process(pending, pendingLine); err != nil {
			return err
		}
	}
	return sc.Err()
}

func splitTop(s string) []string {
	var out []string
	depth := 0
	last := 0
	inStr := false
	for i := 0; i < len(s); i++ {
		c := s[i]
		if inStr {
			if c == '\\' {
				i++
			} else if c == '"' {
				inStr = false
			}
			continue
		}
		switch c {
		case '"':
			inStr = true
		case '(', '[':
			depth++
		case ')', ']':
			depth--
		case ',':
			if depth == 0 {
				out = append(out, strings.TrimSpace(s[last:i]))
				last = i + 1
			}
		}
	}
	if strings.TrimSpace(s[last:]) != "" {
		out = append(out, strings.TrimSpace(s[last:]))
	}
	return out
}

var reSpecHdr = regexp.MustCompile(`^(func|def|fdef|macro|pred)\s+(\w+)\s*\(([^)]*)\)\s*([^=]+?)\s*(=\s*(.*))?$`)

func parseSpecFunc(s string) (*SpecFunc, error) {
	m := reSpecHdr.FindStringSubmatch(s)
	if m == nil {
		return nil, fmt.Errorf("bad spec function %q", s)
	}
	sf := &SpecFunc{Name: m[2], Result: strings.TrimSpace(m[4]), Macro: m[1] == "macro" || m[1] == "pred", Opaque: m[1] == "pred", Declared: m[1] == "fdef"}
	for _, p := range splitTop(m[3]) {
		parts := strings.SplitN(strings.TrimSpace(p), " ", 2)
		if len(parts) != 2 {
			return nil, fmt.Errorf("bad parameter %q", p)
		}
		sf.Params = append(sf.Params, QVar{parts[0], strings.TrimSpace(parts[1])})
	}
	if m[1] != "func" {
		if m[6] == "" {
			return nil, fmt.Errorf("spec %s %s needs a body", m[1], m[2])
		}
		e, err := ParseExpr(m[6])
		if err != nil {
			return nil, err
		}
		sf.Body = e
	}
	return sf, nil
}

// LoadAll loads the contract files of /repo and the spec files of /verif/spec.
func LoadAllSpecs(repo, specDir string, pkgDirs map[string]string) (*Specs, error) {
	sp := NewSpecs()
	for pkgPath, dir := range pkgDirs {
		p := filepath.Join(dir, "zz_verif_contracts.go")
		if _, err := os.Stat(p); err == nil {
			if err := sp.LoadSpecFile(p, pkgPath); err != nil {
				return nil, err
			}
			sp.Guarded = append(sp.Guarded, p)
		}
	}
	files, _ := filepath.Glob(filepath.Join(specDir, "*.spec"))
	for _, f := range files {
		if err := sp.LoadSpecFile(f, ""); err != nil {
			return nil, err
		}
	}
	// a clause restricted to properties (ensures[name@Cxx]) must be an obligation of at least one
	// check: one of those properties has to include the function, or nobody would ever prove it
	for _, c := range sp.Funcs {
		if c.Trusted || c.NoBody {
			continue
		}
		for _, cl := range c.Ensures {
			if len(cl.Props) == 0 {
				continue
			}
			ok := false
			for _, p := range cl.Props {
				if hasProp(c.Props, p) {
					ok = true
				}
			}
			if !ok {
				return nil, fmt.Errorf("%s:%d: ensures[%s] of %s is restricted to %v, none of which includes the function (props %v): it would never be checked", cl.File, cl.Line, cl.Name, c.Key, cl.Props, c.Props)
			}
		}
		for _, ac := range c.AtCalls {
			if len(ac.Clause.Props) == 0 {
				continue
			}
			ok := false
			for _, p := range ac.Clause.Props {
				if hasProp(c.Props, p) {
					ok = true
				}
			}
			if !ok {
				return nil, fmt.Errorf("%s:%d: atcall assert[%s] of %s is restricted to %v, none of which includes the function (props %v): it would never be checked", ac.Clause.File, ac.Clause.Line, ac.Clause.Name, c.Key, ac.Clause.Props, c.Props)
			}
		}
	}
	return sp, nil
}
