package main

// Field invariants: `fieldinv[name] T.f,g writers w1 w2: inv(x)` declares an invariant of every
// object x of struct type T that reads only the fields f, g of x. It holds in every state visible
// to a function that is not one of the listed writers, because
//   (a) only the writers store to those fields (structural obligation: every Store instruction of
//       the program whose address is one of those fields of a T lies in a writer);
//   (b) a freshly allocated T (all fields zero) satisfies it (obligation);
//   (c) every writer, which may assume it for its *T parameters on entry, re-establishes it for them
//       on every return (obligations in the writer).
// Assumption (listed): a writer does not call other code between breaking and restoring the
// invariant, and T objects are not written concurrently while a reader runs.
// Use: whenever a function that is not a writer reads one of the fields of an object x (in its
// code or in a contract expression), inv(x) is assumed in that state.

import (
	"fmt"
	"go/token"
	"go/types"
	"strings"

	"golang.org/x/tools/go/ssa"
)

func (fi *FieldInv) isWriter(key string) bool {
	for _, w := range fi.Writers {
		if w == key {
			return true
		}
	}
	return false
}

// fieldInvsFor: invariants over field `name` of struct type stT.
func (e *Engine) fieldInvsFor(stT types.Type, name string) []*FieldInv {
	if len(e.specs.FieldInvs) == 0 {
		return nil
	}
	var out []*FieldInv
	for _, fi := range e.specs.FieldInvs {
		t, _, err := e.resolveType(fi.Type, fi.Pkg)
		if err != nil || t == nil || !types.Identical(t, unwrapT(stT)) {
			continue
		}
		for _, f := range fi.Fields {
			if f == name {
				out = append(out, fi)
			}
		}
	}
	return out
}

// assumeFieldInv: called when field `name` of object ref (of struct type stT) is read in state st.
func (fc *FnCtx) assumeFieldInv(st *State, ref Term, stT types.Type, name string) {
	if fc.inFieldInv {
		return
	}
	for _, fi := range fc.e.fieldInvsFor(stT, name) {
		if fi.isWriter(fc.key) {
			continue
		}
		k := fi.Name + "|" + ref.S + "|" + fc.stateKey(st, fi, stT)
		if fc.fieldInvDone == nil {
			fc.fieldInvDone = map[string]bool{}
		}
		if fc.fieldInvDone[k] {
			continue
		}
		fc.fieldInvDone[k] = true
		fc.inFieldInv = true
		env := &Env{fc: fc, pkg: fi.Pkg, vars: map[string]CVal{"x": {ref, types.NewPointer(unwrapT(stT))}}, bound: map[string]CVal{}, st: st, old: st}
		t, err := env.evalBool(fi.Expr)
		fc.inFieldInv = false
		if err != nil {
			fc.unsupported("fieldinv %s: %v", fi.Name, err)
			continue
		}
		fc.fact(fmt.Sprintf("(=> (not (= %s 0)) %s)", ref.S, t.S))
		fc.trusted["field invariant "+fi.Name+" of "+fi.Type+": "+fi.Src+" (only "+strings.Join(shortKeys(fi.Writers), ", ")+" write these fields: structural obligation; they re-establish it: obligations there)"] = true
	}
}

func shortKeys(ks []string) []string {
	var out []string
	for _, k := range ks {
		out = append(out, shortKey(k))
	}
	return out
}

// stateKey: the versions of the field arrays the invariant reads (so that the fact is added once per state).
func (fc *FnCtx) stateKey(st *State, fi *FieldInv, stT types.Type) string {
	var parts []string
	for _, f := range fi.Fields {
		n := fieldArrName(unwrapT(stT), f)
		if t, ok := st.heap[n]; ok {
			parts = append(parts, t.S)
		} else {
			parts = append(parts, fmt.Sprintf("%s@e%d", n, st.epoch))
		}
	}
	return strings.Join(parts, ",")
}

// writerObligations: in a writer, the invariant is assumed for *T parameters at entry (done by the
// caller of this function through assume=true) and must hold for them at every return.
func (fc *FnCtx) fieldInvParams(fn *ssa.Function, st *State, assume bool, reach string, pos token.Pos) {
	for _, fi := range fc.e.specs.FieldInvs {
		if !fi.isWriter(fc.key) {
			continue
		}
		t, _, err := fc.e.resolveType(fi.Type, fi.Pkg)
		if err != nil || t == nil {
			continue
		}
		for _, p := range fn.Params {
			pt, ok := p.Type().Underlying().(*types.Pointer)
			if !ok || !types.Identical(pt.Elem(), t) {
				continue
			}
			ref := fc.params[p.Name()].T
			fc.inFieldInv = true
			env := &Env{fc: fc, pkg: fi.Pkg, vars: map[string]CVal{"x": {ref, p.Type()}}, bound: map[string]CVal{}, st: st, old: st}
			tt, err := env.evalBool(fi.Expr)
			fc.inFieldInv = false
			if err != nil {
				fc.unsupported("fieldinv %s: %v", fi.Name, err)
				continue
			}
			body := fmt.Sprintf("(=> (not (= %s 0)) %s)", ref.S, tt.S)
			if assume {
				fc.fact(body)
			} else {
				o := fc.oblig("post", "fieldinv."+fi.Name, body, reach, pos, fi.Props)
				o.Src = "writer re-establishes the field invariant: " + fi.Src
			}
		}
	}
}

// fieldInvProgramChecks: (a) only writers store to the fields; (b) the zero object satisfies the invariant.
func (e *Engine) fieldInvProgramChecks(id string) []*Oblig {
	var out []*Oblig
	for _, fi := range e.specs.FieldInvs {
		if !hasProp(fi.Props, id) {
			continue
		}
		t, _, err := e.resolveType(fi.Type, fi.Pkg)
		fc := e.newFnCtx("fieldinv."+fi.Name, nil, nil)
		fc.short = "fieldinv"
		fc.props = []string{id}
		if err != nil || t == nil {
			o := fc.oblig("binding", fi.Name+".type", "false", "true", 0, []string{id})
			o.Src = fmt.Sprintf("fieldinv %s: cannot resolve type %s", fi.Name, fi.Type)
			out = append(out, o)
			continue
		}
		bad := ""
		var badPos token.Pos
		for f := range e.allFuncs {
			for _, b := range f.Blocks {
				for _, in := range b.Instrs {
					var addr ssa.Value
					switch i := in.(type) {
					case *ssa.Store:
						addr = i.Addr
					default:
						continue
					}
					fa, ok := addr.(*ssa.FieldAddr)
					if !ok {
						// a store through an index/field chain rooted at one of the fields (x.f[i] = v, x.f[i].g = v)
						root := addr
						for {
							switch r := root.(type) {
							case *ssa.IndexAddr:
								root = r.X
								continue
							case *ssa.FieldAddr:
								if pe := ptrElem(r.X.Type()); pe != nil && types.Identical(pe, t) {
									fa = r
								} else {
									root = r.X
									continue
								}
							case *ssa.UnOp:
								if r.Op == token.MUL {
									root = r.X
									continue
								}
							}
							break
						}
						if fa == nil {
							continue
						}
					}
					pe := ptrElem(fa.X.Type())
					if pe == nil || !types.Identical(pe, t) {
						continue
					}
					fname := pe.Underlying().(*types.Struct).Field(fa.Field).Name()
					hit := false
					for _, fld := range fi.Fields {
						if fld == fname {
							hit = true
						}
					}
					if hit && !fi.isWriter(fnKey(f)) {
						bad = fmt.Sprintf("%s stores to %s.%s", shortKey(fnKey(f)), fi.Type, fname)
						badPos = in.Pos()
					}
				}
			}
		}
		goal := "true"
		src := "only " + strings.Join(shortKeys(fi.Writers), ", ") + " store to " + fi.Type + "." + strings.Join(fi.Fields, ",")
		if bad != "" {
			goal = "false"
			src += " - but " + bad
		}
		o := fc.oblig("structural", fi.Name+".only-writers-store", goal, "true", badPos, []string{id})
		o.Src = src
		out = append(out, o)
		// (b) zero object
		st := &State{heap: map[string]Term{}}
		fc.entry = st
		r := fc.newRef(st, "zero")
		stt := t.Underlying().(*types.Struct)
		e.sortOf(t)
		for k := 0; k < stt.NumFields(); k++ {
			if isSyncType(stt.Field(k).Type()) {
				continue
			}
			n := fieldArrName(t, stt.Field(k).Name())
			srt := e.sortOf(stt.Field(k).Type())
			a := fc.heapGet(st, n, arr(SInt, srt))
			fc.heapSet(st, n, Term{store(a.S, r.S, e.zero(srt, stt.Field(k).Type()).S), a.Sort})
		}
		fc.inFieldInv = true
		env := &Env{fc: fc, pkg: fi.Pkg, vars: map[string]CVal{"x": {r, types.NewPointer(t)}}, bound: map[string]CVal{}, st: st, old: st}
		tt, err := env.evalBool(fi.Expr)
		fc.inFieldInv = false
		if err != nil {
			o := fc.oblig("binding", fi.Name+".expr", "false", "true", 0, []string{id})
			o.Src = err.Error()
			out = append(out, o)
			continue
		}
		o2 := fc.oblig("post", fi.Name+".zero-object", tt.S, "true", 0, []string{id})
		o2.Src = "a freshly allocated " + fi.Type + " satisfies: " + fi.Src
		out = append(out, o2)
		// writers must be under contract
		for _, w := range fi.Writers {
			if e.specs.Funcs[w] == nil || e.funcs[w] == nil {
				o := fc.oblig("binding", fi.Name+".writer."+sanitize(shortKey(w)), "false", "true", 0, []string{id})
				o.Src = "writer " + shortKey(w) + " is not a function under contract"
				out = append(out, o)
			}
		}
	}
	return out
}
