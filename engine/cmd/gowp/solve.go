package main

import (
	"bytes"
	"context"
	"fmt"
	"os"
	"os/exec"
	"path/filepath"
	"regexp"
	"strings"
	"sync"
	"time"
)

type SolveResult struct {
	Status  string // unsat, sat, unknown, timeout, error
	Solver  string
	Seconds float64
	Model   map[string]string
	Raw     string
	File    string
	Agree   []string // other solvers that also said unsat (thorough)
	All     map[string]string
}

type solverDef struct {
	name string
	cmd  func(file string, timeout time.Duration) []string
}

var solvers = []solverDef{
	{"z3-5.1.0", func(f string, t time.Duration) []string {
		return []string{"z3-new", fmt.Sprintf("-T:%d", int(t.Seconds())+1), f}
	}},
	{"z3-4.8.12", func(f string, t time.Duration) []string {
		return []string{"z3", fmt.Sprintf("-T:%d", int(t.Seconds())+1), f}
	}},
	// same solver with relevancy filtering off: every ground term may trigger quantifier instantiation
	// (default relevancy misses instantiations for some goals; it only affects completeness)
	{"z3-5.1.0(relevancy=0)", func(f string, t time.Duration) []string {
		return []string{"z3-new", fmt.Sprintf("-T:%d", int(t.Seconds())+1), "smt.relevancy=0", f}
	}},
	{"cvc5-1.0.3", func(f string, t time.Duration) []string {
		return []string{"cvc5", "--strings-exp", fmt.Sprintf("--tlimit=%d", t.Milliseconds()), f}
	}},
}

var procSem = make(chan struct{}, 16)

func runSolver(ctx context.Context, sd solverDef, file string, timeout time.Duration) (status, out string, secs float64) {
	procSem <- struct{}{}
	defer func() { <-procSem }()
	if ctx.Err() != nil {
		return "cancelled", "", 0
	}
	args := sd.cmd(file, timeout)
	cctx, cancel := context.WithTimeout(ctx, timeout+2*time.Second)
	defer cancel()
	cmd := exec.CommandContext(cctx, args[0], args[1:]...)
	var buf bytes.Buffer
	cmd.Stdout = &buf
	cmd.Stderr = &buf
	t0 := time.Now()
	cmd.Run()
	secs = time.Since(t0).Seconds()
	out = buf.String()
	first := ""
	for _, l := range strings.Split(out, "\n") {
		l = strings.TrimSpace(l)
		if l == "" || strings.HasPrefix(l, "WARNING") {
			continue
		}
		first = l
		break
	}
	switch first {
	case "unsat", "sat", "unknown":
		return first, out, secs
	case "timeout":
		return "timeout", out, secs
	}
	if ctx.Err() != nil {
		return "cancelled", out, secs
	}
	if cctx.Err() != nil {
		return "timeout", out, secs
	}
	return "error", out, secs
}

// Solve races the portfolio on one obligation.
func Solve(o *Oblig, dir string, timeout time.Duration, thorough bool) *SolveResult {
	if (o.Cover || (o.Quick && len(o.ExtraAs) == 0)) && timeout > 3*time.Second {
		timeout = 3 * time.Second
	}
	file := filepath.Join(dir, sanitize(o.Name)+".smt2")
	os.WriteFile(file, []byte(o.smtFile(true)), 0o644)
	res := &SolveResult{Status: "unknown", File: file, All: map[string]string{}}
	ctx, cancel := context.WithCancel(context.Background())
	defer cancel()
	type r struct {
		sd          solverDef
		status, out string
		secs        float64
	}
	ch := make(chan r, len(solvers))
	for _, sd := range solvers {
		go func(sd solverDef) {
			s, out, secs := runSolver(ctx, sd, file, timeout)
			ch <- r{sd, s, out, secs}
		}(sd)
	}
	decided := false
	var errs []string
	for range solvers {
		x := <-ch
		res.All[x.sd.name] = x.status
		if x.status == "error" {
			errs = append(errs, x.sd.name+": "+firstLines(x.out, 3))
		}
		if decided {
			if x.status == "unsat" && res.Status == "unsat" {
				res.Agree = append(res.Agree, x.sd.name)
			}
			if (x.status == "sat" && res.Status == "unsat") || (x.status == "unsat" && res.Status == "sat") {
				res.Raw += "\nSOLVER DISAGREEMENT: " + x.sd.name + " says " + x.status
				res.Status = "error"
			}
			continue
		}
		if x.status == "unsat" || x.status == "sat" {
			decided = true
			res.Status, res.Solver, res.Seconds, res.Raw = x.status, x.sd.name, x.secs, x.out
			if x.status == "sat" {
				res.Model = parseModel(x.out)
			}
			if !thorough {
				cancel()
			}
		} else if res.Status == "unknown" && x.status == "timeout" {
			res.Status = "timeout"
			res.Seconds = x.secs
		}
	}
	if !decided && len(errs) == len(solvers) {
		res.Status = "error"
		res.Raw = strings.Join(errs, "\n")
	} else if !decided {
		res.Raw = strings.Join(errs, "\n")
	}
	return res
}

func firstLines(s string, n int) string {
	ls := strings.Split(s, "\n")
	if len(ls) > n {
		ls = ls[:n]
	}
	return strings.Join(ls, " | ")
}

var reModelEntry = regexp.MustCompile(`\(\s*([^\s()]+)\s+`)

// parseModel reads the (get-value ...) answer: ((name value) (name value) ...)
func parseModel(out string) map[string]string {
	m := map[string]string{}
	i := strings.Index(out, "((")
	if i < 0 {
		return m
	}
	s := out[i+1:]
	// iterate over top-level (name value) pairs
	depth := 0
	start := -1
	inStr := false
	for k := 0; k < len(s); k++ {
		c := s[k]
		if inStr {
			if c == '"' {
				if k+1 < len(s) && s[k+1] == '"' {
					k++
					continue
				}
				inStr = false
			}
			continue
		}
		switch c {
		case '"':
			inStr = true
		case '(':
			if depth == 0 {
				start = k
			}
			depth++
		case ')':
			depth--
			if depth == 0 && start >= 0 {
				pair := s[start+1 : k]
				sp := strings.IndexAny(pair, " \n\t")
				if sp > 0 {
					m[pair[:sp]] = strings.TrimSpace(pair[sp+1:])
				}
				start = -1
			}
			if depth < 0 {
				return m
			}
		}
	}
	return m
}

// SolveAll discharges obligations in parallel.
func SolveAll(obs []*Oblig, dir string, timeout time.Duration, thorough bool) {
	var wg sync.WaitGroup
	sem := make(chan struct{}, 12)
	for _, o := range obs {
		wg.Add(1)
		go func(o *Oblig) {
			defer wg.Done()
			sem <- struct{}{}
			defer func() { <-sem }()
			o.result = Solve(o, dir, timeout, thorough)
		}(o)
	}
	wg.Wait()
}

// batchFile renders all obligations of one function as a single incremental script: facts are
// asserted in program order and each obligation is checked between (push) and (pop) at the
// point where it was generated.
func batchFile(fc *FnCtx, obs []*Oblig) string {
	var sb strings.Builder
	sb.WriteString("(set-logic ALL)\n")
	sb.WriteString(preludeAny)
	for _, d := range fc.e.structDecls() {
		sb.WriteString(d + "\n")
	}
	for _, d := range fc.e.boxDecls() {
		sb.WriteString(d + "\n")
	}
	for _, d := range fc.decls {
		if d != "" {
			sb.WriteString(d + "\n")
		}
	}
	k := 0
	emit := func(o *Oblig) {
		sb.WriteString("(push 1)\n")
		if o.Reach != "" && o.Reach != "true" {
			sb.WriteString("(assert " + o.Reach + ")\n")
		}
		if !o.Cover {
			sb.WriteString("(assert (not " + o.Goal + "))\n")
		}
		sb.WriteString("(check-sat)\n(pop 1)\n")
	}
	for i := 0; i <= len(fc.facts); i++ {
		for k < len(obs) && obs[k].NFacts <= i {
			emit(obs[k])
			k++
		}
		if i < len(fc.facts) {
			sb.WriteString("(assert " + fc.facts[i] + ")\n")
		}
	}
	return sb.String()
}

// SolveBatch tries all obligations of a function in one incremental z3 run; obligations it
// decides as expected (unsat, or sat for covers) are final, the rest are left for the portfolio.
func SolveBatch(fc *FnCtx, dir string, perCheckMs int) {
	var obs []*Oblig
	for _, o := range fc.obligs {
		if len(o.ExtraAs) == 0 {
			obs = append(obs, o)
		}
	}
	if len(obs) < 3 {
		return
	}
	// obligations are generated in order of NFacts
	file := filepath.Join(dir, "batch_"+sanitize(fc.key)+".smt2")
	txt := batchFile(fc, obs)
	if fc.opaque() {
		t2, err := opaqueText(txt)
		if err != nil {
			fc.unsupported("%v", err)
			return
		}
		txt = t2
	}
	os.WriteFile(file, []byte(txt), 0o644)
	procSem <- struct{}{}
	t0 := time.Now()
	total := time.Duration(perCheckMs*len(obs))*time.Millisecond + 5*time.Second
	if total > 120*time.Second {
		total = 120 * time.Second
	}
	ctx, cancel := context.WithTimeout(context.Background(), total)
	cmd := exec.CommandContext(ctx, "z3-new", fmt.Sprintf("-t:%d", perCheckMs), file)
	var buf bytes.Buffer
	cmd.Stdout = &buf
	cmd.Run()
	cancel()
	<-procSem
	secs := time.Since(t0).Seconds()
	lines := strings.Split(strings.TrimSpace(buf.String()), "\n")
	var answers []string
	for _, l := range lines {
		l = strings.TrimSpace(l)
		switch l {
		case "sat", "unsat", "unknown", "timeout":
			answers = append(answers, l)
		default:
			if strings.HasPrefix(l, "(error") {
				fc.e.warn("%s: batch solver error: %s", fc.short, l)
				return
			}
		}
	}
	per := secs / float64(len(obs))
	for i, o := range obs {
		if i >= len(answers) {
			break
		}
		a := answers[i]
		if (a == "unsat" && !o.Cover) || ((a == "sat" || a == "unknown") && o.Cover) {
			o.result = &SolveResult{Status: a, Solver: "z3-5.1.0", Seconds: per, File: file, All: map[string]string{"z3-5.1.0 (incremental)": a}}
		}
	}
}

// SolveFns: batch pass per function, then the portfolio for what is left.
func SolveFns(fcs []*FnCtx, extra []*Oblig, dir string, timeout time.Duration, thorough bool) {
	var wg sync.WaitGroup
	// contexts of the extra (program-level / ground) obligations are batched as well
	seenFc := map[*FnCtx]bool{}
	for _, fc := range fcs {
		seenFc[fc] = true
	}
	var extraFcs []*FnCtx
	for _, o := range extra {
		if o.Fc != nil && !seenFc[o.Fc] {
			seenFc[o.Fc] = true
			extraFcs = append(extraFcs, o.Fc)
		}
	}
	for _, fc := range append(append([]*FnCtx{}, fcs...), extraFcs...) {
		wg.Add(1)
		go func(fc *FnCtx) {
			defer wg.Done()
			if os.Getenv("GOWP_NOBATCH") == "" {
				SolveBatch(fc, dir, 3000)
			}
		}(fc)
	}
	wg.Wait()
	var rest []*Oblig
	for _, fc := range fcs {
		for _, o := range fc.obligs {
			if o.result == nil || thorough {
				rest = append(rest, o)
			}
		}
	}
	for _, o := range extra {
		if o.result == nil || thorough {
			rest = append(rest, o)
		}
	}
	SolveAll(rest, dir, timeout, thorough)
	// An obligation on which a solver ran out of time (and none answered sat) is tried once more,
	// alone on the machine's terms (two at a time) and with three times the budget: a timeout under
	// load is not a verdict. Nothing is loosened: only unsat discharges.
	var again []*Oblig
	for _, o := range rest {
		if o.Cover || o.result == nil || (o.Quick && len(o.ExtraAs) == 0) {
			continue
		}
		if o.result.Status != "timeout" && o.result.Status != "unknown" {
			continue
		}
		timedOut := false
		for _, s := range o.result.All {
			if s == "timeout" {
				timedOut = true
			}
		}
		if timedOut {
			again = append(again, o)
		}
	}
	if len(again) > 0 && len(again) <= 40 {
		var wg sync.WaitGroup
		sem := make(chan struct{}, 2)
		for _, o := range again {
			wg.Add(1)
			go func(o *Oblig) {
				defer wg.Done()
				sem <- struct{}{}
				defer func() { <-sem }()
				r := Solve(o, dir, 3*timeout, thorough)
				if r.Status == "unsat" || r.Status == "sat" {
					o.result = r
				}
			}(o)
		}
		wg.Wait()
	}
}
