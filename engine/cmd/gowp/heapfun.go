package main

// Heap functions: a function whose contract says `heapfun` promises that it modifies nothing a
// caller can see and that its result is a function of its arguments and of the heap locations it
// reads. The contract expression call("f", a1, ..., an) denotes that result in the state in which
// the expression is evaluated: the SMT term hf$f(a1, ..., an, A1, ..., Ak), where A1..Ak are the
// current versions of the heap arrays in the READ FOOTPRINT of f. The footprint is computed from
// the SSA of f (and, transitively, of the heap functions it calls), never written by hand:
//
//   - a load through &x.f reads the field array of f; a load through any other pointer reads the
//     deref array (or all field arrays) of the pointee type;
//   - a map lookup reads the domain and value arrays of the map's region; when that region is the
//     region of a map PARAMETER of f the entry is recorded relative to the parameter, and at a use
//     site it is replaced by the arrays of the region of the actual argument;
//   - a call to another heap function adds that function's footprint (parameter-relative entries
//     mapped through the arguments); library models add nothing (they are functions of their
//     arguments) except bytes.Buffer accessors.
//
// Anything else (range over a map, channel operations, go, select, calls to functions that are
// neither heap functions nor library models nor trivially inlinable, calls through interfaces
// or function values) makes the function ineligible: reported as a binding failure, never ignored.
// That the body modifies nothing is the ordinary frame obligation (a heapfun has no modifies clause).

import (
	"fmt"
	"os"
	"go/token"
	"go/types"
	"sort"
	"strings"

	"golang.org/x/tools/go/ssa"
)

type fpEntry struct {
	name  string // fixed heap array name, or "" for a parameter-relative map region
	sort  string
	param int    // index into fn.Params (parameter-relative)
	depth int    // 0: the map itself, 1: its element maps
	which string // "MD" or "MV"
	mt    *types.Map
}

type footprint struct {
	entries []fpEntry
	err     string
}

func (e *Engine) footprintOf(key string) *footprint {
	if e.fpCache == nil {
		e.fpCache = map[string]*footprint{}
	}
	if fp, ok := e.fpCache[key]; ok {
		if fp == nil {
			return &footprint{} // recursion: the fixpoint is reached because entries are a set
		}
		return fp
	}
	e.fpCache[key] = nil
	fp := e.computeFootprint(key)
	e.fpCache[key] = fp
	// a recursive function: one more pass picks up entries contributed through the cycle
	fp2 := e.computeFootprint(key)
	e.fpCache[key] = fp2
	return fp2
}

func (e *Engine) computeFootprint(key string) *footprint {
	fn := e.funcs[key]
	fp := &footprint{}
	if fn == nil {
		if it, m := e.ifaceMethod(key); m != nil {
			return e.ifaceFootprint(key, it, m)
		}
	}
	if fn == nil || fn.Blocks == nil {
		fp.err = "no body for " + key
		return fp
	}
	seen := map[string]bool{}
	add := func(en fpEntry) {
		k := fmt.Sprintf("%s|%d|%d|%s", en.name, en.param, en.depth, en.which)
		if en.name != "" {
			k = en.name
		}
		if seen[k] {
			return
		}
		seen[k] = true
		fp.entries = append(fp.entries, en)
	}
	fail := func(f string, a ...interface{}) {
		if fp.err == "" {
			fp.err = fmt.Sprintf(f, a...)
		}
	}
	scratch := &FnCtx{e: e, declSet: map[string]bool{}, base: map[string]Term{}, baseSort: map[string]string{}, counter: map[string]int{}}
	paramIdx := func(v ssa.Value) int {
		if !isMapType(v.Type()) || e.reg == nil {
			return -1
		}
		root := e.reg.find(e.reg.node(v))
		for i, p := range fn.Params {
			if isMapType(p.Type()) && e.reg.find(e.reg.node(p)) == root && !root.heap {
				return i
			}
		}
		return -1
	}
	addMap := func(m ssa.Value) {
		mt := m.Type().Underlying().(*types.Map)
		ks, vs := e.sortOf(mt.Key()), e.sortOf(mt.Elem())
		if pi := paramIdx(m); pi >= 0 {
			add(fpEntry{param: pi, which: "MD", sort: arr(SInt, arr(ks, SBool)), mt: mt})
			add(fpEntry{param: pi, which: "MV", sort: arr(SInt, arr(ks, vs)), mt: mt})
			return
		}
		dn, vn, _, _ := scratch.mapArrs(mt, e.regionOf(m))
		add(fpEntry{name: dn, sort: arr(SInt, arr(ks, SBool)), param: -1})
		add(fpEntry{name: vn, sort: arr(SInt, arr(ks, vs)), param: -1})
	}
	addDeref := func(elemT types.Type) {
		if elemT == nil {
			fail("load through an untyped pointer")
			return
		}
		if isTimeType(elemT) {
			add(fpEntry{name: derefArrName(elemT), sort: arr(SInt, STime), param: -1})
			return
		}
		if st, ok := elemT.Underlying().(*types.Struct); ok {
			e.sortOf(elemT)
			for k := 0; k < st.NumFields(); k++ {
				if isSyncType(st.Field(k).Type()) {
					continue
				}
				add(fpEntry{name: fieldArrName(elemT, st.Field(k).Name()), sort: arr(SInt, e.sortOf(st.Field(k).Type())), param: -1})
			}
			return
		}
		if _, ok := elemT.Underlying().(*types.Array); ok {
			return // local arrays are values
		}
		add(fpEntry{name: derefArrName(elemT), sort: arr(SInt, e.sortOf(elemT)), param: -1})
	}
	var visit func(f *ssa.Function, depth int)
	visitCall := func(f *ssa.Function, c *ssa.CallCommon, pos token.Pos, depth int) {
		if c.IsInvoke() {
			key := methodKey(c.Method)
			if _, ok := libModels[key]; ok || libPure[key] {
				return
			}
			if ct := e.specs.Funcs[key]; ct != nil && readOnlyContract(ct) {
				sub := e.footprintOf(key)
				if sub.err != "" {
					fail("%s: %s", shortKey(key), sub.err)
					return
				}
				for _, en := range sub.entries {
					if en.name != "" {
						add(en)
						continue
					}
					// parameter-relative (receiver is parameter 0 of the interface heap function)
					if en.param >= 1 && en.param-1 < len(c.Args) {
						a := c.Args[en.param-1]
						if f == fn {
							if pi := paramIdx(a); pi >= 0 {
								add(fpEntry{param: pi, which: en.which, sort: en.sort, mt: en.mt, depth: en.depth})
								continue
							}
						}
						if isMapType(a.Type()) {
							dn, vn, _, _ := scratch.mapArrs(en.mt, e.regionOf(a))
							n := dn
							if en.which == "MV" {
								n = vn
							}
							add(fpEntry{name: n, sort: en.sort, param: -1})
						}
					}
				}
				return
			}
			fail("call through interface method %s", key)
			return
		}
		switch callee := c.Value.(type) {
		case *ssa.Builtin:
			switch callee.Name() {
			case "len", "cap", "append", "min", "max", "copy", "panic", "print", "println":
			default:
				fail("builtin %s", callee.Name())
			}
		case *ssa.Function:
			ck := fnKey(callee)
			if _, ok := libModels[ck]; ok {
				if strings.HasPrefix(ck, "bytes.(*Buffer).") {
					add(fpEntry{name: "BUF", sort: arr(SInt, SString), param: -1})
				}
				if strings.HasPrefix(ck, "sync.") || strings.HasPrefix(ck, "bufio.") {
					fail("call to %s", ck)
				}
				return
			}
			if libPure[ck] {
				return
			}
			if ct := e.specs.Funcs[ck]; ct != nil {
				if !readOnlyContract(ct) {
					fail("call to %s, whose contract has a modifies clause", shortKey(ck))
					return
				}
				sub := e.footprintOf(ck)
				if sub.err != "" {
					fail("%s: %s", shortKey(ck), sub.err)
					return
				}
				for _, en := range sub.entries {
					if en.name != "" {
						add(en)
						continue
					}
					// parameter-relative: map through the actual argument
					if en.param < len(c.Args) {
						a := c.Args[en.param]
						if f == fn {
							if pi := paramIdx(a); pi >= 0 {
								add(fpEntry{param: pi, which: en.which, sort: en.sort, mt: en.mt, depth: en.depth})
								continue
							}
						}
						if isMapType(a.Type()) {
							dn, vn, _, _ := scratch.mapArrs(en.mt, e.regionOf(a))
							n := dn
							if en.which == "MV" {
								n = vn
							}
							add(fpEntry{name: n, sort: en.sort, param: -1})
						}
					}
				}
				return
			}
			if callee.Blocks != nil && depth < 4 && (callee.Parent() != nil || isTrivial(callee)) {
				visit(callee, depth+1)
				return
			}
			fail("call to %s, which has no contract", shortKey(ck))
		case *ssa.MakeClosure:
			visit(callee.Fn.(*ssa.Function), depth+1)
		default:
			fail("call through a function value")
		}
	}
	visit = func(f *ssa.Function, depth int) {
		for _, b := range f.Blocks {
			for _, in := range b.Instrs {
				switch i := in.(type) {
				case *ssa.UnOp:
					switch i.Op {
					case token.MUL:
						switch a := i.X.(type) {
						case *ssa.FieldAddr:
							stT := ptrElem(a.X.Type())
							fld := stT.Underlying().(*types.Struct).Field(a.Field)
							if _, isStruct := fld.Type().Underlying().(*types.Struct); isStruct && !isTimeType(fld.Type()) {
								fail("load of a nested struct field")
							}
							e.sortOf(stT)
							add(fpEntry{name: fieldArrName(stT, fld.Name()), sort: arr(SInt, e.sortOf(fld.Type())), param: -1})
						case *ssa.IndexAddr:
							// element of a slice value or of a local array: no heap
						case *ssa.Alloc:
							// a local variable of the function itself: allocated during the call, not part of
							// the state the result depends on
						case *ssa.FreeVar:
							if f == fn {
								addDeref(ptrElem(a.Type())) // a captured variable of an enclosing function: caller-visible
							}
							// (a closure made inside fn captures fn's own locals: not part of the pre-state)
						case *ssa.Global:
							addDeref(ptrElem(a.Type()))
						default:
							addDeref(ptrElem(i.X.Type()))
						}
					case token.ARROW:
						fail("channel receive")
					}
				case *ssa.Lookup:
					if isMapType(i.X.Type()) {
						addMap(i.X)
					}
				case *ssa.Range:
					if isMapType(i.X.Type()) {
						fail("range over a map (iteration order)")
					}
				case *ssa.Go:
					fail("go statement")
				case *ssa.Select:
					fail("select statement")
				case *ssa.Send:
					fail("channel send")
				case *ssa.Call:
					visitCall(f, &i.Call, i.Pos(), depth)
				case *ssa.Defer:
					visitCall(f, &i.Call, i.Pos(), depth)
				}
			}
		}
	}
	visit(fn, 0)
	sort.SliceStable(fp.entries, func(i, j int) bool {
		a, b := fp.entries[i], fp.entries[j]
		ka := fmt.Sprintf("%s|%03d|%s", a.name, a.param+1, a.which)
		kb := fmt.Sprintf("%s|%03d|%s", b.name, b.param+1, b.which)
		return ka < kb
	})
	return fp
}

// hfSig: parameter types (receiver first), result types and parameter names of a heap function:
// from the SSA function, or - for an interface method - from the interface type.
func (e *Engine) hfSig(ct *FuncContract) (params []types.Type, names []string, results *types.Tuple, err error) {
	if fn := e.funcs[ct.Key]; fn != nil {
		for _, p := range fn.Params {
			params = append(params, p.Type())
			names = append(names, p.Name())
		}
		// a closure: the cells it captures are arguments too (two instances are different functions)
		for _, fv := range fn.FreeVars {
			params = append(params, fv.Type())
			names = append(names, fv.Name())
		}
		return params, names, fn.Signature.Results(), nil
	}
	it, m := e.ifaceMethod(ct.Key)
	if m == nil {
		return nil, nil, nil, fmt.Errorf("call(%q): no such function or interface method", ct.Key)
	}
	sig := m.Type().(*types.Signature)
	params = append(params, it)
	names = append(names, "this")
	for q := 0; q < sig.Params().Len(); q++ {
		params = append(params, sig.Params().At(q).Type())
		names = append(names, sig.Params().At(q).Name())
	}
	return params, names, sig.Results(), nil
}

// ifaceMethod resolves a contract key of the form pkg.(Iface).Method.
func (e *Engine) ifaceMethod(key string) (types.Type, *types.Func) {
	i := strings.Index(key, ".(")
	if i < 0 {
		return nil, nil
	}
	rest := key[i+2:]
	j := strings.Index(rest, ").")
	if j < 0 {
		return nil, nil
	}
	p := e.pkgs[key[:i]]
	if p == nil || p.Types == nil {
		return nil, nil
	}
	obj := p.Types.Scope().Lookup(strings.TrimPrefix(rest[:j], "*"))
	if obj == nil {
		return nil, nil
	}
	it, ok := obj.Type().Underlying().(*types.Interface)
	if !ok {
		return nil, nil
	}
	for k := 0; k < it.NumMethods(); k++ {
		if it.Method(k).Name() == rest[j+2:] {
			return obj.Type(), it.Method(k)
		}
	}
	return nil, nil
}

// heapFunTerm builds hf$f$k(args..., footprint arrays in state st): result k of heap function f.
// For a result of type error the term is a Bool: "that result is nil" (error values are allocated
// per call and are not functions of the inputs; whether there is an error is).
func (fc *FnCtx) heapFunTerm(ct *FuncContract, k int, args []CVal, st *State) (Term, error) {
	e := fc.e
	if !ct.HeapFun {
		return Term{}, fmt.Errorf("call(%q): the function is not declared heapfun", shortKey(ct.Key))
	}
	params, _, res, err := e.hfSig(ct)
	if err != nil {
		return Term{}, err
	}
	fp := e.footprintOf(ct.Key)
	if fp.err != "" {
		return Term{}, fmt.Errorf("heap function %s: %s", shortKey(ct.Key), fp.err)
	}
	if len(args) != len(params) {
		return Term{}, fmt.Errorf("call(%q): %d arguments, want %d", shortKey(ct.Key), len(args), len(params))
	}
	if k < 0 || k >= res.Len() {
		return Term{}, fmt.Errorf("call(%q): no result #%d", shortKey(ct.Key), k)
	}
	var as, sorts []string
	for i, a := range args {
		ps := e.sortOf(params[i])
		t := a.T
		if t.Sort == "NIL" {
			t = e.zero(ps, params[i])
		}
		if t.Sort != ps && ps == SAny && a.GoT != nil {
			t = e.box(t, a.GoT)
		}
		if t.Sort != ps {
			return Term{}, fmt.Errorf("call(%q): argument %d has sort %s, want %s", shortKey(ct.Key), i, t.Sort, ps)
		}
		as = append(as, t.S)
		sorts = append(sorts, ps)
	}
	for _, en := range fp.entries {
		name := en.name
		if name == "" {
			reg := regOrDefault(e, args[en.param])
			if args[en.param].GoT == nil {
				reg = e.regionDefault(params[en.param])
			}
			dn, vn, _, _ := fc.mapArrs(en.mt, reg)
			name = dn
			if en.which == "MV" {
				name = vn
			}
		}
		a := fc.heapGet(st, name, en.sort)
		as = append(as, a.S)
		sorts = append(sorts, en.sort)
	}
	rt := res.At(k).Type()
	rs := e.sortOf(rt)
	if isErrorType(rt) {
		rs = SBool
	}
	sym := "hf$" + sanitize(shortKey(ct.Key))
	if res.Len() > 1 {
		sym += fmt.Sprintf("$%d", k)
	}
	fc.declareFun(sym, sorts, rs)
	fc.trusted["heap function "+shortKey(ct.Key)+": its results (for error results: whether they are nil) are determined by its arguments and the heap locations it reads (read footprint computed from the SSA: "+fp.describe()+"); Go evaluation of it is deterministic"] = true
	return Term{"(" + sym + " " + strings.Join(as, " ") + ")", rs}, nil
}

func isErrorType(t types.Type) bool {
	return types.Identical(t, types.Universe.Lookup("error").Type())
}

func (fp *footprint) describe() string {
	var out []string
	for _, en := range fp.entries {
		if en.name != "" {
			out = append(out, en.name)
		} else {
			out = append(out, fmt.Sprintf("%s(param %d)", en.which, en.param))
		}
	}
	if len(out) == 0 {
		return "no heap"
	}
	return strings.Join(out, " ")
}

// resolveFuncKey finds the contract a call("name", ...) expression refers to: name is the short
// form used in obligation names (rowLess, (*Literal).String, table.rowLess, ...).
func (e *Engine) resolveFuncKey(name, pkg string) *FuncContract {
	if ct := e.specs.Funcs[pkg+"."+name]; ct != nil {
		return ct
	}
	// T.M and pkg.T.M stand for the method M of T (value, pointer or interface receiver)
	if i := strings.LastIndex(name, "."); i > 0 && !strings.Contains(name, "(") {
		tn, mn := name[:i], name[i+1:]
		pk := pkg
		if j := strings.LastIndex(tn, "."); j > 0 {
			for _, p := range e.byName[tn[:j]] {
				if strings.HasPrefix(p.PkgPath, "github.com/google/badwolf") {
					pk = p.PkgPath
				}
			}
			tn = tn[j+1:]
		}
		for _, k := range []string{pk + ".(" + tn + ")." + mn, pk + ".(*" + tn + ")." + mn} {
			if ct := e.specs.Funcs[k]; ct != nil {
				return ct
			}
		}
	}
	if ct := e.specs.Funcs[name]; ct != nil {
		return ct
	}
	var found *FuncContract
	for k, ct := range e.specs.Funcs {
		if strings.HasSuffix(k, "/"+name) || strings.HasSuffix(k, "."+name) && strings.HasPrefix(k, pkg) {
			if found != nil && found != ct {
				return nil
			}
			found = ct
		}
	}
	return found
}

// ---- ghost state and calls without contract
//
// Real code cannot write ghost fields: a ghost array G$T$f changes only through the `ghostset` and
// `modifies` clauses of functions under contract. A call to a function WITHOUT contract therefore
// leaves G$T$f alone unless that function can reach (static call graph: static callees, closures it
// makes, for interface and function-value calls every function of the program with that method name
// or signature) a function whose contract writes the ghost field.

func (e *Engine) ghostWriters(arr string) map[string]bool {
	if e.gwCache == nil {
		e.gwCache = map[string]map[string]bool{}
	}
	if w, ok := e.gwCache[arr]; ok {
		return w
	}
	w := map[string]bool{}
	scratch := &FnCtx{e: e, declSet: map[string]bool{}, base: map[string]Term{}, baseSort: map[string]string{}, counter: map[string]int{}}
	for k, ct := range e.specs.Funcs {
		scratch.c = ct
		hit := false
		for _, gs := range ct.Ghostset {
			for _, n := range scratch.modExprArrays(gs.Loc, ct) {
				if n == arr {
					hit = true
				}
			}
		}
		for _, m := range ct.Modifies {
			for _, n := range scratch.modExprArrays(m, ct) {
				if n == arr {
					hit = true
				}
			}
		}
		for _, n := range ct.ModAll {
			for _, hn := range scratch.resolveHeapNames(n, ct.Pkg) {
				if hn == arr {
					hit = true
				}
			}
		}
		if hit {
			w[k] = true
		}
	}
	e.gwCache[arr] = w
	return w
}

func (e *Engine) reachable(f *ssa.Function) map[string]bool {
	if e.reachCache == nil {
		e.reachCache = map[*ssa.Function]map[string]bool{}
	}
	if r, ok := e.reachCache[f]; ok {
		return r
	}
	r := map[string]bool{}
	e.reachCache[f] = r
	var visit func(g *ssa.Function)
	seen := map[*ssa.Function]bool{}
	var curIface *types.Interface
	byName := func(name string, sig *types.Signature) {
		for _, h := range e.funcs {
			if h.Pkg == nil || !strings.HasPrefix(h.Pkg.Pkg.Path(), "github.com/google/badwolf") {
				continue
			}
			if name != "" && h.Name() == name && h.Signature.Recv() != nil {
				// only the methods of types that implement the interface the call goes through
				if curIface != nil && !types.Implements(h.Signature.Recv().Type(), curIface) {
					continue
				}
				visit(h)
			}
			if name == "" && sig != nil && e.addrTaken()[h] && types.Identical(h.Signature, sig) {
				visit(h)
			}
		}
	}
	var stack []string
	visit = func(g *ssa.Function) {
		if g == nil || seen[g] {
			return
		}
		seen[g] = true
		r[fnKey(g)] = true
		if dbg := os.Getenv("GOWP_DEBUG_REACH"); dbg != "" && strings.Contains(fnKey(g), dbg) {
			fmt.Fprintln(os.Stderr, "reach path:", strings.Join(append(stack, fnKey(g)), " -> "))
		}
		stack = append(stack, shortKey(fnKey(g)))
		defer func() { stack = stack[:len(stack)-1] }()
		inRepo := g.Pkg != nil && strings.HasPrefix(g.Pkg.Pkg.Path(), "github.com/google/badwolf")
		if !inRepo && g.Pkg != nil {
			switch g.Pkg.Pkg.Path() {
			case "runtime", "reflect", "sync", "sync/atomic", "internal/abi", "internal/runtime/atomic", "syscall", "os":
				return // the language run time: never calls into the repository on its own
			}
		}
		for _, b := range g.Blocks {
			for _, in := range b.Instrs {
				if inRepo {
					// functions used as values (passed to library code, stored): they may be called later
					for _, op := range in.Operands(nil) {
						if fnv, ok := (*op).(*ssa.Function); ok {
							if ci, isCall := in.(ssa.CallInstruction); !isCall || ci.Common().Value != fnv {
								visit(fnv)
							}
						}
					}
				}
				var cc *ssa.CallCommon
				switch i := in.(type) {
				case *ssa.Call:
					cc = &i.Call
				case *ssa.Defer:
					cc = &i.Call
				case *ssa.Go:
					cc = &i.Call
				case *ssa.MakeClosure:
					visit(i.Fn.(*ssa.Function))
				}
				if cc == nil {
					continue
				}
				if cc.IsInvoke() {
					// the interface method itself (its contract may define ghost state) and every implementation
					r[methodKey(cc.Method)] = true
					curIface, _ = cc.Value.Type().Underlying().(*types.Interface)
					byName(cc.Method.Name(), nil)
					curIface = nil
					continue
				}
				switch c := cc.Value.(type) {
				case *ssa.Function:
					visit(c)
				case *ssa.MakeClosure:
					visit(c.Fn.(*ssa.Function))
				case *ssa.Builtin:
				default:
					// a call through a function value: inside the repository any address-taken function
					// with that signature; library code only calls back functions it was handed, and those
					// are visited where they are created or passed (MakeClosure / function operands)
					if sig, ok := cc.Value.Type().Underlying().(*types.Signature); ok && inRepo {
						byName("", sig)
					}
				}
			}
		}
	}
	visit(f)
	return r
}

func stripRecv(s *types.Signature) *types.Signature {
	if s.Recv() == nil {
		return s
	}
	return types.NewSignatureType(nil, nil, nil, s.Params(), s.Results(), s.Variadic())
}

func (e *Engine) mayWriteGhost(f *ssa.Function, arr string) bool {
	w := e.ghostWriters(arr)
	if len(w) == 0 {
		return false
	}
	for k := range e.reachable(f) {
		if w[k] {
			return true
		}
	}
	return false
}

// addrTaken: functions used as values somewhere in the program (not merely called).
func (e *Engine) addrTaken() map[*ssa.Function]bool {
	if e.addrTakenSet != nil {
		return e.addrTakenSet
	}
	m := map[*ssa.Function]bool{}
	for f := range e.allFuncs {
		for _, b := range f.Blocks {
			for _, in := range b.Instrs {
				var callee ssa.Value
				switch i := in.(type) {
				case *ssa.Call:
					if !i.Call.IsInvoke() {
						callee = i.Call.Value
					}
				case *ssa.Defer:
					if !i.Call.IsInvoke() {
						callee = i.Call.Value
					}
				case *ssa.Go:
					if !i.Call.IsInvoke() {
						callee = i.Call.Value
					}
				}
				for _, op := range in.Operands(nil) {
					if g, ok := (*op).(*ssa.Function); ok && *op != callee {
						m[g] = true
					}
				}
				if mc, ok := in.(*ssa.MakeClosure); ok {
					m[mc.Fn.(*ssa.Function)] = true
				}
			}
		}
	}
	e.addrTakenSet = m
	return m
}

// ifaceFootprint: the read footprint of an interface method declared heapfun: the union of the
// footprints of the method on every type of the program that implements the interface. Each of
// those methods must itself be under a heapfun contract (so that it is verified to modify nothing).
func (e *Engine) ifaceFootprint(key string, it types.Type, m *types.Func) *footprint {
	fp := &footprint{}
	iface := it.Underlying().(*types.Interface)
	seen := map[string]bool{}
	var impls []string
	for k, f := range e.funcs {
		if f.Name() != m.Name() || f.Signature.Recv() == nil || f.Pkg == nil || f.Synthetic != "" {
			continue
		}
		if !strings.HasPrefix(f.Pkg.Pkg.Path(), "github.com/google/badwolf") {
			continue
		}
		if !types.Implements(f.Signature.Recv().Type(), iface) {
			continue
		}
		impls = append(impls, k)
	}
	sort.Strings(impls)
	for _, k := range impls {
		ct := e.specs.Funcs[k]
		if ct == nil || !readOnlyContract(ct) || ct.NoBody || ct.Trusted {
			fp.err = fmt.Sprintf("implementation %s is not under a verified contract without modifies clause", shortKey(k))
			return fp
		}
		sub := e.footprintOf(k)
		if sub.err != "" {
			fp.err = shortKey(k) + ": " + sub.err
			return fp
		}
		for _, en := range sub.entries {
			kk := en.name
			if kk == "" {
				kk = fmt.Sprintf("|%d|%s", en.param, en.which)
			}
			if !seen[kk] {
				seen[kk] = true
				fp.entries = append(fp.entries, en)
			}
		}
	}
	if len(impls) == 0 {
		fp.err = "no implementation found"
	}
	sort.SliceStable(fp.entries, func(i, j int) bool {
		a, b := fp.entries[i], fp.entries[j]
		return fmt.Sprintf("%s|%03d|%s", a.name, a.param+1, a.which) < fmt.Sprintf("%s|%03d|%s", b.name, b.param+1, b.which)
	})
	return fp
}

// readOnlyContract: the contract has no modifies clause of any kind, so the frame obligations of the
// body (or, for an interface method, of every implementation) show that it writes nothing visible.
func readOnlyContract(ct *FuncContract) bool {
	if ct.HeapFun {
		return true
	}
	return len(ct.Modifies) == 0 && len(ct.ModAll) == 0 && ct.Opts["modifies-everything"] == "" && ct.Opts["modifies-outside"] == "" && len(ct.Ghostset) == 0
}
