package main

import (
	"fmt"
	"go/ast"
	"go/token"
	"go/types"
	"os"
	"path/filepath"
	"sort"
	"strings"

	"golang.org/x/tools/go/packages"
	"golang.org/x/tools/go/ssa"
	"golang.org/x/tools/go/ssa/ssautil"
)

type Engine struct {
	repo     string
	fset     *token.FileSet
	prog     *ssa.Program
	pkgs     map[string]*packages.Package
	ssaPkgs  map[string]*ssa.Package
	byName   map[string][]*packages.Package
	specs    *Specs
	funcs    map[string]*ssa.Function
	allFuncs map[*ssa.Function]bool

	structs      map[string]*structInfo
	structOrder  []string
	typeTags     map[string]int
	typeTagNames []string
	needBox      map[string]bool
	funcTags     map[string]int
	funcTagNames []string

	specDeclCache map[string]string
	unstable      map[*ssa.Global]string // globals written or address-taken outside init
	rewritten     map[string]bool        // heap arrays (F$..., D$...) with a store that is not the initialisation of a fresh object
	reg           *regions
	warnings      []string
	fpCache       map[string]*footprint
	gwCache       map[string]map[string]bool
	reachCache    map[*ssa.Function]map[string]bool
	addrTakenSet  map[*ssa.Function]bool
}

const goBin = "/root/go/pkg/mod/golang.org/toolchain@v0.0.1-go1.24.0.linux-amd64/bin"

func LoadEngine(repo, specDir string) (*Engine, error) {
	os.Setenv("PATH", goBin+":"+os.Getenv("PATH"))
	os.Setenv("GOTOOLCHAIN", "local")
	os.Setenv("GOFLAGS", "-mod=mod")
	os.Setenv("GOPROXY", "off")
	os.Setenv("GOSUMDB", "off")
	cfg := &packages.Config{Mode: packages.LoadAllSyntax, Dir: repo, BuildFlags: []string{"-tags=verif"}}
	pkgs, err := packages.Load(cfg, "./...")
	if err != nil {
		return nil, err
	}
	e := &Engine{repo: repo, pkgs: map[string]*packages.Package{}, ssaPkgs: map[string]*ssa.Package{},
		byName: map[string][]*packages.Package{}, funcs: map[string]*ssa.Function{},
		structs: map[string]*structInfo{}, typeTags: map[string]int{}, needBox: map[string]bool{}, funcTags: map[string]int{},
		specDeclCache: map[string]string{}}
	nerr := 0
	packages.Visit(pkgs, nil, func(p *packages.Package) {
		for _, er := range p.Errors {
			if strings.HasPrefix(p.PkgPath, "github.com/google/badwolf") {
				fmt.Fprintf(os.Stderr, "load error: %s: %v\n", p.PkgPath, er)
				nerr++
			}
		}
		e.pkgs[p.PkgPath] = p
		e.byName[p.Name] = append(e.byName[p.Name], p)
	})
	if nerr > 0 {
		return nil, fmt.Errorf("%d package load errors", nerr)
	}
	if len(pkgs) > 0 {
		e.fset = pkgs[0].Fset
	}
	prog, _ := ssautil.AllPackages(pkgs, ssa.GlobalDebug|ssa.InstantiateGenerics)
	prog.Build()
	e.prog = prog
	for _, sp := range prog.AllPackages() {
		e.ssaPkgs[sp.Pkg.Path()] = sp
	}
	e.allFuncs = ssautil.AllFunctions(prog)
	for f := range e.allFuncs {
		if f.Pkg == nil {
			continue
		}
		e.funcs[fnKey(f)] = f
	}
	e.computeStableGlobals()
	e.computeWriteOnce()
	if debugWriteOnce {
		var ks []string
		for k := range e.rewritten {
			if strings.Contains(k, "node_") || strings.Contains(k, "triple_") || strings.Contains(k, "literal_") || strings.Contains(k, "predicate_") || strings.Contains(k, "semantic_Construct") {
				ks = append(ks, k)
			}
		}
		sort.Strings(ks)
		fmt.Fprintln(os.Stderr, "rewritten arrays:", ks)
	}
	e.computeRegions()
	pkgDirs := map[string]string{}
	for path, p := range e.pkgs {
		if strings.HasPrefix(path, "github.com/google/badwolf") && len(p.GoFiles) > 0 {
			pkgDirs[path] = filepath.Dir(p.GoFiles[0])
		}
	}
	e.specs, err = LoadAllSpecs(repo, specDir, pkgDirs)
	if err != nil {
		return nil, err
	}
	return e, nil
}

func fnKey(f *ssa.Function) string {
	if f.Parent() != nil {
		pk := fnKey(f.Parent())
		name := f.Name()
		if i := strings.LastIndex(name, "$"); i >= 0 {
			return pk + name[i:]
		}
		return pk + "$" + name
	}
	pkg := ""
	if f.Pkg != nil {
		pkg = f.Pkg.Pkg.Path()
	} else if f.Object() != nil && f.Object().Pkg() != nil {
		pkg = f.Object().Pkg().Path()
	}
	if f.Signature != nil && f.Signature.Recv() != nil {
		rt := f.Signature.Recv().Type()
		if p, ok := rt.(*types.Pointer); ok {
			if n, ok := p.Elem().(*types.Named); ok {
				if n.Obj().Pkg() != nil {
					pkg = n.Obj().Pkg().Path()
				}
				return pkg + ".(*" + n.Obj().Name() + ")." + f.Name()
			}
		}
		if n, ok := rt.(*types.Named); ok {
			if n.Obj().Pkg() != nil {
				pkg = n.Obj().Pkg().Path()
			}
			return pkg + ".(" + n.Obj().Name() + ")." + f.Name()
		}
	}
	return pkg + "." + f.Name()
}

// methodKey: key for an abstract (interface) method.
func methodKey(m *types.Func) string {
	sig := m.Type().(*types.Signature)
	pkg := ""
	if m.Pkg() != nil {
		pkg = m.Pkg().Path()
	}
	if sig.Recv() != nil {
		rt := sig.Recv().Type()
		if p, ok := rt.(*types.Pointer); ok {
			rt = p.Elem()
			if n, ok := rt.(*types.Named); ok {
				return pkg + ".(*" + n.Obj().Name() + ")." + m.Name()
			}
		}
		if n, ok := rt.(*types.Named); ok {
			return pkg + ".(" + n.Obj().Name() + ")." + m.Name()
		}
	}
	return pkg + "." + m.Name()
}

func (e *Engine) funcTag(key string) int {
	if id, ok := e.funcTags[key]; ok {
		return id
	}
	id := len(e.funcTags) + 1
	e.funcTags[key] = id
	e.funcTagNames = append(e.funcTagNames, key)
	return id
}

func (e *Engine) warn(f string, a ...interface{}) {
	e.warnings = append(e.warnings, fmt.Sprintf(f, a...))
}

// resolveType parses a type written in a contract. Returns Go type (may be nil for
// SMT-level sorts) and the sort.
func (e *Engine) resolveType(s string, pkgPath string) (types.Type, string, error) {
	s = strings.TrimSpace(s)
	switch s {
	case "Int", "Ref":
		return nil, SInt, nil
	case "Bool":
		return nil, SBool, nil
	case "String":
		return nil, SString, nil
	case "Any":
		return nil, SAny, nil
	case "Time":
		return nil, STime, nil
	case "F64":
		return nil, SF64, nil
	case "int":
		return types.Typ[types.Int], SInt, nil
	case "int64":
		return types.Typ[types.Int64], SInt, nil
	case "rune", "int32":
		return types.Typ[types.Int32], SInt, nil
	case "byte", "uint8":
		return types.Typ[types.Uint8], SInt, nil
	case "bool":
		return types.Typ[types.Bool], SBool, nil
	case "string":
		return types.Typ[types.String], SString, nil
	case "float64":
		return types.Typ[types.Float64], SF64, nil
	case "error":
		return types.Universe.Lookup("error").Type(), SAny, nil
	}
	if strings.HasPrefix(s, "Array[") {
		// Array[K]V
		depth := 0
		for i := 5; i < len(s); i++ {
			if s[i] == '[' {
				depth++
			} else if s[i] == ']' {
				depth--
				if depth == 0 {
					_, ks, err := e.resolveType(s[6:i], pkgPath)
					if err != nil {
						return nil, "", err
					}
					_, vs, err := e.resolveType(s[i+1:], pkgPath)
					if err != nil {
						return nil, "", err
					}
					return nil, arr(ks, vs), nil
				}
			}
		}
	}
	if strings.HasPrefix(s, "*") {
		t, _, err := e.resolveType(s[1:], pkgPath)
		if err != nil {
			return nil, "", err
		}
		if t == nil {
			return nil, "", fmt.Errorf("pointer to SMT-level sort %q", s)
		}
		return types.NewPointer(t), SInt, nil
	}
	if strings.HasPrefix(s, "[]") {
		t, _, err := e.resolveType(s[2:], pkgPath)
		if err != nil {
			return nil, "", err
		}
		st := types.NewSlice(t)
		return st, e.sortOf(st), nil
	}
	if strings.HasPrefix(s, "map[") {
		depth := 0
		for i := 3; i < len(s); i++ {
			if s[i] == '[' {
				depth++
			} else if s[i] == ']' {
				depth--
				if depth == 0 {
					k, _, err := e.resolveType(s[4:i], pkgPath)
					if err != nil {
						return nil, "", err
					}
					v, _, err := e.resolveType(s[i+1:], pkgPath)
					if err != nil {
						return nil, "", err
					}
					return types.NewMap(k, v), SInt, nil
				}
			}
		}
	}
	if strings.HasPrefix(s, "chan ") {
		t, _, err := e.resolveType(s[5:], pkgPath)
		if err != nil {
			return nil, "", err
		}
		return types.NewChan(types.SendRecv, t), SInt, nil
	}
	// pkg.Name or Name
	pkgName, name := "", s
	if i := strings.LastIndex(s, "."); i >= 0 {
		pkgName, name = s[:i], s[i+1:]
	}
	var cands []*packages.Package
	if pkgName == "" {
		if p := e.pkgs[pkgPath]; p != nil {
			cands = []*packages.Package{p}
		}
	} else if p := e.pkgs[pkgName]; p != nil {
		cands = []*packages.Package{p}
	} else {
		cands = e.byName[pkgName]
		// prefer badwolf packages
		sort.SliceStable(cands, func(i, j int) bool {
			return strings.HasPrefix(cands[i].PkgPath, "github.com/google/badwolf") && !strings.HasPrefix(cands[j].PkgPath, "github.com/google/badwolf")
		})
	}
	for _, p := range cands {
		if p.Types == nil {
			continue
		}
		if obj := p.Types.Scope().Lookup(name); obj != nil {
			if tn, ok := obj.(*types.TypeName); ok {
				return tn.Type(), e.sortOf(tn.Type()), nil
			}
		}
	}
	return nil, "", fmt.Errorf("cannot resolve type %q (package %s)", s, pkgPath)
}

// loop statements of a function body in source order, excluding nested function literals.
func loopStmts(fn *ssa.Function) []ast.Node {
	var body *ast.BlockStmt
	switch s := fn.Syntax().(type) {
	case *ast.FuncDecl:
		body = s.Body
	case *ast.FuncLit:
		body = s.Body
	}
	if body == nil {
		return nil
	}
	var out []ast.Node
	ast.Inspect(body, func(n ast.Node) bool {
		switch n.(type) {
		case *ast.FuncLit:
			return false
		case *ast.ForStmt, *ast.RangeStmt:
			out = append(out, n)
		}
		return true
	})
	sort.Slice(out, func(i, j int) bool { return out[i].Pos() < out[j].Pos() })
	return out
}

// computeStableGlobals: a package-level variable is stable when only the package's init
// functions store to it and its address is never used for anything but loads and stores.
func (e *Engine) computeStableGlobals() {
	e.unstable = map[*ssa.Global]string{}
	for f := range e.allFuncs {
		isInit := f.Pkg != nil && (f.Name() == "init" || strings.HasPrefix(f.Name(), "init#")) && f.Parent() == nil
		for _, b := range f.Blocks {
			for _, in := range b.Instrs {
				for _, op := range in.Operands(nil) {
					g, ok := (*op).(*ssa.Global)
					if !ok {
						continue
					}
					switch i := in.(type) {
					case *ssa.UnOp:
						continue // load
					case *ssa.Store:
						if i.Addr == g && i.Val != g {
							if isInit && f.Pkg == g.Pkg {
								continue
							}
							e.unstable[g] = "stored in " + f.String()
							continue
						}
					case *ssa.DebugRef:
						continue
					}
					e.unstable[g] = "address used in " + f.String()
				}
			}
		}
	}
}


// computeWriteOnce: a heap array (one struct field, or the pointees of one type) is WRITE-ONCE when
// every store to it in the whole loaded program goes through the address of an object allocated in
// the same function (the initialisation of a composite literal or of a fresh local): such a store
// never changes the value an already existing object holds, so a call that "may modify everything"
// still leaves the array unchanged for the objects that existed before it. Every other store marks
// the array as rewritten. (reflect and unsafe are not considered: assumed unused on these types.)
func (e *Engine) computeWriteOnce() {
	e.rewritten = map[string]bool{}
	var freshBase func(v ssa.Value, depth int) bool
	freshBase = func(v ssa.Value, depth int) bool {
		if depth > 3 {
			return false
		}
		switch x := v.(type) {
		case *ssa.Alloc:
			return true
		case *ssa.FieldAddr:
			// a field of an embedded struct of a fresh object
			return freshBase(x.X, depth+1)
		}
		return false
	}
	mark := func(t types.Type) {
		if t == nil {
			return
		}
		if st, ok := t.Underlying().(*types.Struct); ok && !isTimeType(t) {
			for k := 0; k < st.NumFields(); k++ {
				e.rewritten[fieldArrName(t, st.Field(k).Name())] = true
			}
			return
		}
		e.rewritten[derefArrName(t)] = true
	}
	for f := range e.allFuncs {
		for _, b := range f.Blocks {
			for _, in := range b.Instrs {
				st, ok := in.(*ssa.Store)
				if !ok {
					continue
				}
				switch a := st.Addr.(type) {
				case *ssa.FieldAddr:
					if freshBase(a.X, 0) {
						continue
					}
					stT := ptrElem(a.X.Type())
					if stT == nil {
						continue
					}
					if u, ok := stT.Underlying().(*types.Struct); ok {
						e.rewritten[fieldArrName(stT, u.Field(a.Field).Name())] = true
					}
				case *ssa.Alloc:
					// initialisation / assignment of a local cell: the cell is private to its function and
					// its closures, handled by the private-cell rule; it is still a rewrite of the array
					if !singleStore(a) {
						mark(ptrElem(a.Type()))
					}
				case *ssa.IndexAddr, *ssa.Global:
					// slice elements and globals live in other arrays
				default:
					mark(ptrElem(st.Addr.Type()))
				}
			}
		}
	}
}

func init() {
	if os.Getenv("GOWP_DEBUG_WRITEONCE") != "" {
		debugWriteOnce = true
	}
}

var debugWriteOnce bool

// writeOnce: see computeWriteOnce.
func (e *Engine) writeOnce(arr string) bool {
	return (strings.HasPrefix(arr, "F$") || strings.HasPrefix(arr, "D$")) && !e.rewritten[arr]
}
