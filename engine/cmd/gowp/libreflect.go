package main

// reflect.DeepEqual(a, b) for two values of the same static pointer-to-struct type (assumed
// contract, trusted base): the call reads the heap only, and its result r satisfies
//
//	sufficient(a, b) ==> r      and      r ==> necessary(a, b)
//
// where both relations are generated from the Go type, following the documentation of
// reflect.DeepEqual: pointers are deeply equal if they are equal or point to deeply equal values;
// structs if their fields are; strings, integers and booleans if they are ==. For floats (NaN, -0),
// time.Time (wall/ext/loc), interfaces, slices and maps the relations are one-sided: `necessary`
// keeps only consequences that certainly hold (time: same instant; interface: same dynamic type and,
// for strings/ints/bools, same value), `sufficient` is false below a pointer that is not identical.

import (
	"fmt"
	"go/types"

	"golang.org/x/tools/go/ssa"
)

func init() {
	libModels["reflect.DeepEqual"] = func(fr *frame, in ssa.Instruction, c *ssa.CallCommon, args []Val, st *State, reach string) Val {
		fc := fr.fc
		r := fc.fresh("deepeq", SBool)
		ma, oka := c.Args[0].(*ssa.MakeInterface)
		mb, okb := c.Args[1].(*ssa.MakeInterface)
		if !oka || !okb || !types.Identical(ma.X.Type(), mb.X.Type()) {
			return r
		}
		ta, okx := fr.val(ma.X).(Term)
		tb, oky := fr.val(mb.X).(Term)
		if !okx || !oky {
			return r
		}
		nec, suf := fr.deepEq(st, ma.X.Type(), ta.S, tb.S, 0, map[string]bool{})
		fc.fact(fmt.Sprintf("(=> %s %s)", r.S, nec))
		fc.fact(fmt.Sprintf("(=> %s %s)", suf, r.S))
		return r
	}
}

func (fr *frame) deepEq(st *State, t types.Type, a, b string, depth int, seen map[string]bool) (nec, suf string) {
	fc := fr.fc
	t = unwrapT(t)
	if isTimeType(t) {
		return eq("(tinst "+a+")", "(tinst "+b+")"), "false"
	}
	switch u := t.Underlying().(type) {
	case *types.Basic:
		if u.Info()&types.IsFloat != 0 || u.Info()&types.IsComplex != 0 {
			return "true", "false"
		}
		return eq(a, b), eq(a, b)
	case *types.Pointer:
		elemT := u.Elem()
		k := typeKey(elemT)
		if depth > 6 || seen[k] {
			return eq(eq(a, "0"), eq(b, "0")), eq(a, b)
		}
		seen2 := map[string]bool{k: true}
		for s := range seen {
			seen2[s] = true
		}
		var pn, ps string
		if isTimeType(elemT) {
			arrT := fc.heapGet(st, derefArrName(elemT), arr(SInt, STime))
			pn, ps = fr.deepEq(st, elemT, sel(arrT.S, a), sel(arrT.S, b), depth+1, seen2)
		} else if _, ok := elemT.Underlying().(*types.Struct); ok {
			fc.e.sortOf(elemT) // registers the struct
			si := fc.e.structs[typeKey(elemT)]
			if si == nil {
				return eq(eq(a, "0"), eq(b, "0")), eq(a, b)
			}
			var ns, ss []string
			for i, f := range si.fields {
				fa := fc.heapGet(st, fieldArrName(elemT, f.Name()), arr(SInt, si.sorts[i]))
				n1, s1 := fr.deepEq(st, f.Type(), sel(fa.S, a), sel(fa.S, b), depth+1, seen2)
				ns = append(ns, n1)
				ss = append(ss, s1)
			}
			pn, ps = and(ns...), and(ss...)
		} else {
			srt := fc.e.sortOf(elemT)
			da := fc.heapGet(st, derefArrName(elemT), arr(SInt, srt))
			pn, ps = fr.deepEq(st, elemT, sel(da.S, a), sel(da.S, b), depth+1, seen2)
		}
		nec = and(eq(eq(a, "0"), eq(b, "0")), or(eq(a, b), eq(a, "0"), pn))
		suf = or(eq(a, b), and(not(eq(a, "0")), not(eq(b, "0")), ps))
		return nec, suf
	case *types.Interface:
		sameTag := eq("(atag "+a+")", "(atag "+b+")")
		simple := fmt.Sprintf("(=> (or ((_ is astr) %s) ((_ is aint) %s) ((_ is abool) %s)) (= %s %s))", a, a, a, a, b)
		return and(sameTag, eq("((_ is anil) "+a+")", "((_ is anil) "+b+")"), simple), "false"
	}
	return "true", "false"
}
