package main

// C19 (structural part): every read method of the memoizing graph builds its cache key from its own
// name, the lookup options and the full UUID of every value argument. (The key function itself and
// the options' text are under contract: storage.(*LookupOptions).String/UUID and lemma lo-key-sound.)

import (
	"fmt"
	"go/constant"
	"go/token"
	"go/types"
	"sort"
	"strings"

	"golang.org/x/tools/go/ssa"
)

func (e *Engine) c19Obligations(id string) []*Oblig {
	var out []*Oblig
	fc := e.newFnCtx("memoization.keys", nil, nil)
	fc.short = "memoization"
	fc.props = []string{id}
	add := func(name string, ok bool, src string, pos token.Pos) {
		goal := "true"
		if !ok {
			goal = "false"
		}
		o := fc.oblig("structural", name, goal, "true", pos, []string{id})
		o.Src = src
		out = append(out, o)
	}
	sp := e.ssaPkgs["github.com/google/badwolf/storage/memoization"]
	if sp == nil {
		add("keys.package-present", false, "package storage/memoization not found", 0)
		return out
	}
	var fns []*ssa.Function
	for f := range e.allFuncs {
		if f.Pkg == sp && f.Parent() == nil && f.Signature.Recv() != nil && strings.Contains(f.Signature.Recv().Type().String(), "graphMemoizer") && f.Blocks != nil {
			fns = append(fns, f)
		}
	}
	sort.Slice(fns, func(i, j int) bool { return f2(fns[i]) < f2(fns[j]) })
	n := 0
	for _, f := range fns {
		// value arguments: pointers to Node / Predicate / Object / Triple
		var valueParams []*ssa.Parameter
		hasLo := false
		for _, p := range f.Params[1:] {
			ts := p.Type().String()
			switch {
			case strings.HasSuffix(ts, "node.Node"), strings.HasSuffix(ts, "predicate.Predicate"), strings.HasSuffix(ts, "triple.Object"), strings.HasSuffix(ts, "triple.Triple"):
				if _, isPtr := p.Type().(*types.Pointer); isPtr {
					valueParams = append(valueParams, p)
				}
			case strings.HasSuffix(ts, "storage.LookupOptions"):
				hasLo = true
			}
		}
		isRead := hasLo || f.Name() == "Exist"
		if !isRead {
			continue
		}
		n++
		// find the call to combinedUUID
		var call *ssa.Call
		for _, b := range f.Blocks {
			for _, in := range b.Instrs {
				if c, ok := in.(*ssa.Call); ok {
					if cal := c.Call.StaticCallee(); cal != nil && cal.Name() == "combinedUUID" && call == nil {
						call = c
					}
				}
			}
		}
		if call == nil {
			add("keys.key-built["+f.Name()+"]", false, f.Name()+" does not build its cache key with combinedUUID", f.Pos())
			continue
		}
		opOK := false
		if k, ok := call.Call.Args[0].(*ssa.Const); ok && k.Value != nil && k.Value.Kind() == constant.String {
			opOK = constant.StringVal(k.Value) == f.Name()
		}
		add("keys.own-name["+f.Name()+"]", opOK, "the key of "+f.Name()+" starts with the operation name \""+f.Name()+"\" (no two operations share keys)", call.Pos())
		loOK := true
		if hasLo {
			loOK = paramOf(call.Call.Args[1]) != nil
		}
		add("keys.own-options["+f.Name()+"]", loOK, "the key of "+f.Name()+" is built from the lookup options it was called with", call.Pos())
		// varargs: each element is <param>.UUID()
		covered := map[*ssa.Parameter]bool{}
		allUUID := true
		if sl, ok := call.Call.Args[2].(*ssa.Slice); ok {
			if al, ok := sl.X.(*ssa.Alloc); ok {
				for _, ref := range *al.Referrers() {
					ia, ok := ref.(*ssa.IndexAddr)
					if !ok {
						continue
					}
					for _, r2 := range *ia.Referrers() {
						st, ok := r2.(*ssa.Store)
						if !ok {
							continue
						}
						uc, ok := st.Val.(*ssa.Call)
						if !ok || uc.Call.StaticCallee() == nil || uc.Call.StaticCallee().Name() != "UUID" {
							allUUID = false
							continue
						}
						if p := paramOf(uc.Call.Args[0]); p != nil {
							covered[p] = true
						} else {
							allUUID = false
						}
					}
				}
			}
		}
		var missing []string
		for _, p := range valueParams {
			if !covered[p] {
				missing = append(missing, p.Name())
			}
		}
		add("keys.covers-all-arguments["+f.Name()+"]", allUUID && len(missing) == 0, fmt.Sprintf("the key of %s contains the full UUID() of every value argument (missing: %v)", f.Name(), missing), call.Pos())
	}
	add("keys.read-methods-found", n >= 12, fmt.Sprintf("%d read methods of graphMemoizer analysed", n), 0)
	return out
}

func f2(f *ssa.Function) string { return f.Name() }

// paramOf: v is a parameter, or a load of the variable a parameter was spilled to (parameters captured
// by a closure live in an Alloc that is stored exactly once, from the parameter).
func paramOf(v ssa.Value) *ssa.Parameter {
	if p, ok := v.(*ssa.Parameter); ok {
		return p
	}
	ld, ok := v.(*ssa.UnOp)
	if !ok || ld.Op != token.MUL {
		return nil
	}
	al, ok := ld.X.(*ssa.Alloc)
	if !ok {
		return nil
	}
	var p *ssa.Parameter
	n := 0
	for _, ref := range *al.Referrers() {
		if st, ok := ref.(*ssa.Store); ok && st.Addr == al {
			n++
			p, _ = st.Val.(*ssa.Parameter)
		}
	}
	if n == 1 {
		return p
	}
	return nil
}
