package main

import (
	"fmt"
	"os"
	"go/token"
	"go/types"
	"sort"
	"strconv"
	"strings"

	"golang.org/x/tools/go/ssa"
)

func shortKey(key string) string {
	// github.com/google/badwolf/bql/lexer.(*lexer).next -> lexer.(*lexer).next
	if i := strings.LastIndex(key, "/"); i >= 0 {
		return key[i+1:]
	}
	return key
}

func (fr *frame) call(in ssa.Instruction, c *ssa.CallCommon, st *State, reach string) Val {
	fc := fr.fc
	pos := in.Pos()
	var args []Val
	if c.IsInvoke() {
		recv := fr.val(c.Value)
		args = append(args, recv)
		for _, a := range c.Args {
			args = append(args, fr.val(a))
		}
		key := methodKey(c.Method)
		{
			// atcall assertions on a call through an interface: the method's parameter names denote the
			// actual arguments ("this" is the receiver)
			msig := c.Method.Type().(*types.Signature)
			pn := []string{"this"}
			pt := []types.Type{c.Value.Type()}
			for q := 0; q < msig.Params().Len(); q++ {
				pn = append(pn, msig.Params().At(q).Name())
				pt = append(pt, msig.Params().At(q).Type())
			}
			fr.atCallAsserts(c.Method.Name(), shortKey(key), pn, pt, args, in, st, reach)
		}
		if rt, ok := recv.(Term); ok && rt.Sort == SAny {
			fr.safety("nil", not(eq(rt.S, "anil")), reach, pos, "method call on nil interface")
		}
		if m, ok := libModels[key]; ok {
			fc.trusted[key] = true
			return m(fr, in, c, args, st, reach)
		}
		if ct := fc.e.specs.Funcs[key]; ct != nil {
			return fr.applyContract(ct, nil, c.Method.Type().(*types.Signature), args, append([]ssa.Value{c.Value}, c.Args...), in, st, reach, pos)
		}
		if rt, ok := recv.(Term); ok && rt.Sort == SAny {
			if v, ok := fr.ifaceDispatch(rt, c, args, st, reach, pos); ok {
				return v
			}
		}
		return fr.unknownCall(key, c.Signature(), st, reach, pos)
	}
	for _, a := range c.Args {
		args = append(args, fr.val(a))
	}
	switch callee := c.Value.(type) {
	case *ssa.Builtin:
		return fr.builtin(callee, in, c, args, st, reach)
	case *ssa.Function:
		return fr.staticCall(callee, nil, in, c, args, st, reach)
	case *ssa.MakeClosure:
		cl := fr.val(callee).(*Closure)
		return fr.staticCall(cl.Fn, cl.Bindings, in, c, args, st, reach)
	}
	v := fr.val(c.Value)
	if cl, ok := v.(*Closure); ok {
		return fr.staticCall(cl.Fn, cl.Bindings, in, c, args, st, reach)
	}
	if t, ok := v.(Term); ok && t.Sort == SInt {
		// atcall assertions on a call through a function-valued variable, by the variable's name;
		// the arguments are $0, $1, ...
		if nm := valueName(c.Value); nm != "" {
			sig := c.Signature()
			var pn []string
			var pt []types.Type
			for q := 0; q < sig.Params().Len(); q++ {
				pn = append(pn, fmt.Sprintf("$%d", q))
				pt = append(pt, sig.Params().At(q).Type())
			}
			fr.atCallAsserts(nm, "", pn, pt, args, in, st, reach)
		}
		return fr.dynCall(t, c, args, st, reach, pos)
	}
	fc.unsupported("call through %T in %s", v, fr.fn.Name())
	return fr.unknownCall("?", c.Signature(), st, reach, pos)
}

func (fr *frame) staticCall(f *ssa.Function, bindings []Val, in ssa.Instruction, c *ssa.CallCommon, args []Val, st *State, reach string) Val {
	fc := fr.fc
	key := fnKey(f)
	pos := in.Pos()
	{
		var pn []string
		var pt []types.Type
		for _, p := range f.Params {
			pn = append(pn, p.Name())
			pt = append(pt, p.Type())
		}
		fr.atCallAsserts(f.Name(), shortKey(key), pn, pt, args, in, st, reach)
	}
	if m, ok := libModels[key]; ok {
		fc.trusted[key] = true
		return m(fr, in, c, args, st, reach)
	}
	if ct := fc.e.specs.Funcs[key]; ct != nil {
		if f.Signature.Recv() != nil && len(args) > 0 {
			if rt, ok := args[0].(Term); ok && rt.Sort == SInt {
				if _, isPtr := f.Signature.Recv().Type().Underlying().(*types.Pointer); isPtr && ct.Opts["nil-receiver-ok"] == "" {
					// a nil receiver is legal Go; whether the body dereferences it is the callee's business,
					// expressed by its precondition
				}
			}
		}
		fr.callBindings = bindings
		return fr.applyContract(ct, f, f.Signature, args, c.Args, in, st, reach, pos)
	}
	if f.Blocks != nil && (f.Parent() != nil || isTrivial(f)) {
		if f.Parent() == nil {
			fc.derived[key] = true
		}
		return fr.inline(f, args, bindings, st, reach, pos, in)
	}
	if f.Blocks != nil && strings.HasPrefix(key, "github.com/google/badwolf") && fc.c != nil && fc.c.Opts["inline"] != "" && strings.Contains(" "+fc.c.Opts["inline"]+" ", " "+f.Name()+" ") {
		fc.derived[key] = true
		return fr.inline(f, args, bindings, st, reach, pos, in)
	}
	// a small loop-free helper of the repository without a contract (typically the product of an
	// "extract function" refactoring) is verified as part of its caller rather than havocing the heap
	if f.Blocks != nil && strings.HasPrefix(key, "github.com/google/badwolf") && fc.inlineDepth < 3 && smallHelper(f) {
		fc.derived[key] = true
		return fr.inline(f, args, bindings, st, reach, pos, in)
	}
	return fr.unknownCall(key, f.Signature, st, reach, pos)
}

// smallHelper: at most 200 instructions, no loop (no block reaches itself), no go/select/defer, no
// direct self call.
func smallHelper(f *ssa.Function) bool {
	n := 0
	for _, b := range f.Blocks {
		n += len(b.Instrs)
		for _, in := range b.Instrs {
			switch x := in.(type) {
			case *ssa.Go, *ssa.Select, *ssa.Defer:
				return false
			case ssa.CallInstruction:
				if x.Common().StaticCallee() == f {
					return false
				}
			}
		}
	}
	if n > 200 {
		return false
	}
	// cycle detection
	state := map[*ssa.BasicBlock]int{}
	var dfs func(b *ssa.BasicBlock) bool
	dfs = func(b *ssa.BasicBlock) bool {
		state[b] = 1
		for _, s := range b.Succs {
			if state[s] == 1 {
				return false
			}
			if state[s] == 0 && !dfs(s) {
				return false
			}
		}
		state[b] = 2
		return true
	}
	return len(f.Blocks) > 0 && dfs(f.Blocks[0])
}

// unknownCall: no contract. Havoc everything, unconstrained result.
func (fr *frame) unknownCall(key string, sig *types.Signature, st *State, reach string, pos token.Pos) Val {
	fc := fr.fc
	if libPure[key] {
		return fr.freshResults(sig, st, "r_"+shortKey(key))
	}
	fc.e.warn("%s: call to %s has no contract: heap havoced, result unconstrained", fc.short, key)
	fc.callees["(no contract) "+key] = true
	if fc.c != nil && !fc.modEvery {
		o := fc.oblig("frame", "frame.unknown-call."+sanitize(shortKey(key)), "false", reach, pos, nil)
		o.Src = "call to " + key + " without contract may modify anything"
	}
	keep := map[string]Term{}
	// ghost variables exist from the start (so that "the callee cannot write it" can keep them)
	for gn, gsrt := range fc.e.specs.GhostVars {
		if _, srt, err := fc.e.resolveType(gsrt, ""); err == nil {
			fc.heapGet(st, "GV"+gn, srt)
		}
	}
	if f := fc.e.funcs[key]; f != nil {
		for n, v := range st.heap {
			if (strings.HasPrefix(n, "G$") || strings.HasPrefix(n, "GV$")) && !fc.e.mayWriteGhost(f, n) {
				keep[n] = v
			}
		}
	}
	fr.havocAll(st)
	for n, v := range keep {
		st.heap[n] = v
	}
	return fr.freshResults(sig, st, "r_"+shortKey(key))
}

func (fr *frame) havocAll(st *State) {
	fc := fr.fc
	fc.nfresh++
	st.epoch = fc.nfresh
	al := st.heap["Alloc"]
	// private cells of the locals of this frame and of the frames it is inlined into keep their values
	type kept struct {
		name, ref, val string
	}
	var keep []kept
	for f := fr; f != nil; f = f.parent {
		for _, pc := range f.priv {
			n := derefArrName(pc.elemT)
			if a, ok := st.heap[n]; ok {
				keep = append(keep, kept{n, pc.ref.S, sel(a.S, pc.ref.S)})
			}
		}
	}
	olds := map[string]Term{}
	for k, v := range st.heap {
		if strings.HasPrefix(k, "VIS$") || strings.HasPrefix(k, "SPOS$") || strings.HasPrefix(k, "EG$") {
			continue // iteration ghosts and errgroup records: written by the engine's own models only
		}
		olds[k] = v
		st.heap[k] = fc.fresh(k+"_h", v.Sort)
	}
	for _, kp := range keep {
		fc.fact(eq(sel(st.heap[kp.name].S, kp.ref), kp.val))
	}
	// write-once arrays keep their values at the objects that existed before the call
	if al.S != "" {
		for k, old := range olds {
			if fc.e.writeOnce(k) && strings.HasPrefix(old.Sort, "(Array Int ") {
				nw := st.heap[k]
				fc.fact(fmt.Sprintf("(forall ((r Int)) (! (=> %s (= (select %s r) (select %s r))) :pattern ((select %s r))))", allocd(al.S, "r"), nw.S, old.S, nw.S))
			}
		}
	}
	if al.S != "" {
		nw := st.heap["Alloc"]
		fc.fact(allocMono(al.S, nw.S))
	}
}

func (fr *frame) freshResults(sig *types.Signature, st *State, prefix string) Val {
	fc := fr.fc
	res := sig.Results()
	mk := func(t types.Type) Val {
		srt := fc.e.sortOf(t)
		v := fc.fresh(prefix, srt)
		if srt == SInt && isRefType(t) {
			fc.assumeAllocated(st, v)
		}
		if isSlc(srt) {
			fc.fact(fmt.Sprintf("(and (<= 0 (soff %s)) (<= 0 (slen %s)))", v.S, v.S))
		}
		if lo, hi, ok := intRange(t); ok && srt == SInt {
			fc.fact(fmt.Sprintf("(and (<= %s %s) (<= %s %s))", lo, v.S, v.S, hi))
		}
		return v
	}
	switch res.Len() {
	case 0:
		return nil
	case 1:
		return mk(res.At(0).Type())
	}
	t := &Tuple{}
	for i := 0; i < res.Len(); i++ {
		t.Elems = append(t.Elems, mk(res.At(i).Type()))
	}
	return t
}

func (e *Engine) bindIfaceParams(ct *FuncContract, env *Env) {
	// parameters of an interface method: looked up from the type
	i := strings.Index(ct.Key, ".(")
	if i < 0 {
		return
	}
	pkgPath := ct.Key[:i]
	rest := ct.Key[i+2:]
	j := strings.Index(rest, ").")
	if j < 0 {
		return
	}
	tn, mn := strings.TrimPrefix(rest[:j], "*"), rest[j+2:]
	p := e.pkgs[pkgPath]
	if p == nil || p.Types == nil {
		return
	}
	obj := p.Types.Scope().Lookup(tn)
	if obj == nil {
		return
	}
	it, ok := obj.Type().Underlying().(*types.Interface)
	if !ok {
		return
	}
	for k := 0; k < it.NumMethods(); k++ {
		m := it.Method(k)
		if m.Name() == mn {
			sig := m.Type().(*types.Signature)
			env.vars["this"] = CVal{Term{"this", SAny}, obj.Type()}
			for q := 0; q < sig.Params().Len(); q++ {
				pv := sig.Params().At(q)
				env.vars[pv.Name()] = CVal{Term{"p", e.sortOf(pv.Type())}, pv.Type()}
			}
		}
	}
}

// applyContract: assert pre, havoc modifies, assume post.
func (fr *frame) applyContract(ct *FuncContract, f *ssa.Function, sig *types.Signature, args []Val, argVals []ssa.Value, in ssa.Instruction, st *State, reach string, pos token.Pos) Val {
	argT := func(i int, t types.Type) types.Type {
		if i < len(argVals) && argVals[i] != nil && isMapType(t) {
			return withReg(t, fr.fc.e.regionOf(argVals[i]))
		}
		return t
	}
	fc := fr.fc
	fc.callees[ct.Key] = true
	if ct.Trusted {
		fc.trusted[ct.Key+" (trusted contract)"] = true
	}
	env := &Env{fc: fc, pkg: ct.Pkg, vars: map[string]CVal{}, bound: map[string]CVal{}, st: st, old: st}
	toTerm := func(v Val, t types.Type) Term {
		switch x := v.(type) {
		case Term:
			return x
		case *Closure:
			return Term{strconv.Itoa(fc.e.funcTag(fnKey(x.Fn))), SInt}
		case *VarArgSlice:
			if lit, ok := fc.sliceLiteral(x, t); ok {
				return lit
			}
		}
		return fc.fresh("arg", fc.e.sortOf(t))
	}
	bindings := fr.callBindings
	fr.callBindings = nil
	if f != nil {
		for i, p := range f.Params {
			if i < len(args) {
				env.vars[p.Name()] = CVal{toTerm(args[i], p.Type()), argT(i, p.Type())}
			}
		}
		// a closure under contract: its captured variables (cells) are named in its contract
		for i, fv := range f.FreeVars {
			if i < len(bindings) {
				if t, ok := bindings[i].(Term); ok {
					env.vars[fv.Name()] = CVal{t, fv.Type()}
				}
			}
		}
	} else {
		// interface method: receiver is "this"
		k := 0
		if len(args) == sig.Params().Len()+1 {
			env.vars["this"] = CVal{toTerm(args[0], nil), nil}
			k = 1
		}
		for i := 0; i < sig.Params().Len(); i++ {
			p := sig.Params().At(i)
			env.vars[p.Name()] = CVal{toTerm(args[i+k], p.Type()), argT(i+k, p.Type())}
		}
	}
	cname := sanitizeName(shortKey(ct.Key))
	for idx, cl := range ct.Requires {
		t, err := env.evalBool(cl.Expr)
		name := cl.Name
		if name == "" {
			name = strconv.Itoa(idx)
		}
		if err != nil {
			fc.unsupported("precondition %s of %s: %v", name, ct.Key, err)
			continue
		}
		o := fc.oblig("pre", "call."+cname+".pre."+name, t.S, reach, pos, nil)
		o.Src = cl.Src
	}
	// recursion: decreases
	if f != nil && f == fc.fn && len(ct.Decreases) > 0 {
		fr.checkRecursion(ct, env, reach, pos)
	}
	oldSt := st.clone()
	env.old = oldSt
	// modifies
	if po := ct.Opts["modifies-outside"]; po != "" {
		if fc.c != nil && !fc.modEvery && fc.c.Opts["modifies-outside"] != po {
			fc.oblig("frame", "frame.call."+cname, "false", reach, pos, nil).Src = "callee modifies everything outside package " + po
		}
		fr.havocOutside(st, po)
	}
	if ct.Opts["modifies-everything"] != "" {
		if fc.c != nil && !fc.modEvery {
			fc.oblig("frame", "frame.call."+cname, "false", reach, pos, nil).Src = "callee modifies everything"
		}
		// "everything" is everything real code can write: ghost state survives when no function the
		// callee can reach is a writer of it (writers are the contracts that name it in modifies / ghostset)
		keepGhost := map[string]Term{}
		if f != nil {
			for gn, gsrt := range fc.e.specs.GhostVars {
				if _, srt, err := fc.e.resolveType(gsrt, ""); err == nil {
					fc.heapGet(st, "GV"+gn, srt)
				}
			}
			for n, v := range st.heap {
				if (strings.HasPrefix(n, "G$") || strings.HasPrefix(n, "GV$")) && !fc.e.mayWriteGhost(f, n) && !fc.e.ghostWriters(n)[ct.Key] {
					keepGhost[n] = v
				} else if os.Getenv("GOWP_DEBUG_GHOST") != "" && strings.HasPrefix(n, "GV$") {
					var hit []string
					w := fc.e.ghostWriters(n)
					for k := range fc.e.reachable(f) {
						if w[k] {
							hit = append(hit, k)
						}
					}
					fmt.Fprintln(os.Stderr, "ghost", n, "not kept across", ct.Key, "writers reached:", hit)
				}
			}
		}
		fr.havocAll(st)
		for n, v := range keepGhost {
			st.heap[n] = v
		}
	}
	var frameGoals []string
	for _, m := range ct.Modifies {
		locs, err := env.evalLocs(m)
		if err != nil {
			fc.unsupported("modifies of %s: %v", ct.Key, err)
			continue
		}
		for _, l := range locs {
			if l.ref.Sort == "SCALAR" {
				if fc.c != nil && !fc.modEvery && !fc.modAll[l.arr] {
					fc.oblig("frame", "frame.call."+cname+"."+l.arr, "false", reach, pos, nil).Src = "callee modifies ghost variable " + l.arr
				}
				fc.heapGet(st, l.arr, l.sort)
				st.heap[l.arr] = fc.fresh(l.arr+"_m", l.sort)
				continue
			}
			if l.pred != "" {
				// a set of references: fresh array, unchanged outside the set
				a := fc.heapGet(st, l.arr, l.sort)
				if fc.c != nil && !fc.modEvery && !fc.modAll[l.arr] {
					frameGoals = append(frameGoals, fmt.Sprintf("(forall ((r Int)) (=> %s %s))", strings.ReplaceAll(l.pred, "%r", "r"), fc.allowed(fr.old, l.arr, "r")))
				}
				nw := fc.fresh(l.arr+"_m", a.Sort)
				fc.fact(fmt.Sprintf("(forall ((r Int)) (! (=> (not %s) (= (select %s r) (select %s r))) :pattern ((select %s r))))", strings.ReplaceAll(l.pred, "%r", "r"), nw.S, a.S, nw.S))
				st.heap[l.arr] = nw
				continue
			}
			if g := fr.frameGoal(l.arr, l.ref); g != "" {
				frameGoals = append(frameGoals, g)
			}
			a := fc.heapGet(st, l.arr, l.sort)
			vs := sortArgs(l.sort)[1]
			nv := fc.fresh(l.arr+"_m", vs)
			fc.heapSet(st, l.arr, Term{store(a.S, l.ref.S, nv.S), a.Sort})
		}
	}
	if len(frameGoals) > 0 {
		o := fc.oblig("frame", "frame.call."+cname, and(frameGoals...), reach, pos, nil)
		o.Src = "everything " + shortKey(ct.Key) + " may modify is covered by the caller's modifies clause (or freshly allocated)"
	}
	var modAllNames []string
	for _, n := range ct.ModAll {
		modAllNames = append(modAllNames, fc.resolveHeapNames(n, ct.Pkg)...)
	}
	for _, hn := range modAllNames {
		n := hn
		if fc.c != nil && !fc.modEvery && !fc.modAll[hn] {
			fc.oblig("frame", "frame.call."+cname+"."+hn, "false", reach, pos, nil).Src = "callee modifies heap(" + n + ")"
		}
		if old, ok := st.heap[hn]; ok {
			st.heap[hn] = fc.fresh(hn+"_m", old.Sort)
		} else if srt, ok := fc.baseSort[hn]; ok {
			st.heap[hn] = fc.fresh(hn+"_m", srt)
		} else {
			// not yet materialised: force a fresh epoch name on first use
			st.heap[hn] = Term{}
			delete(st.heap, hn)
			fc.pendingHavoc(st, hn)
		}
	}
	if !ct.Pure && !ct.HeapFun {
		al := fc.heapGet(st, "Alloc", SAlloc)
		nw := fc.fresh("Alloc_c", al.Sort)
		fc.fact(allocMono(al.S, nw.S))
		st.heap["Alloc"] = nw
	}
	// results
	env.st = st
	ret := fr.freshResults(sig, st, "r_"+cname)
	var rvals []Val
	switch r := ret.(type) {
	case nil:
	case *Tuple:
		rvals = r.Elems
	default:
		rvals = []Val{r}
	}
	for i := 0; i < sig.Results().Len() && i < len(rvals); i++ {
		rt := sig.Results().At(i).Type()
		if call, ok := in.(*ssa.Call); ok && isMapType(rt) {
			if sig.Results().Len() == 1 {
				rt = withReg(rt, fc.e.regionOf(call))
			} else {
				rt = withReg(rt, fmt.Sprintf("R%d", fc.e.reg.find(fc.e.reg.callResult(call, i)).id))
			}
		}
		cv := CVal{rvals[i].(Term), rt}
		env.vars["result"+strconv.Itoa(i)] = cv
		if n := sig.Results().At(i).Name(); n != "" && n != "_" {
			env.vars[n] = cv
		}
		if sig.Results().Len() == 1 {
			env.vars["result"] = cv
		}
	}
	if ct.HeapFun {
		// each result is the heap function applied to the arguments in the state of the call
		_, pnames, _, herr := fc.e.hfSig(ct)
		var cargs []CVal
		okArgs := herr == nil
		for _, pn := range pnames {
			cv, ok := env.vars[pn]
			if !ok {
				okArgs = false
				break
			}
			cargs = append(cargs, cv)
		}
		if okArgs {
			for k := 0; k < sig.Results().Len() && k < len(rvals); k++ {
				ht, err := fc.heapFunTerm(ct, k, cargs, oldSt)
				if err != nil {
					fc.unsupported("%v", err)
					break
				}
				if rt, ok := rvals[k].(Term); ok {
					if isErrorType(sig.Results().At(k).Type()) {
						fc.factIf(reach, eq(eq(rt.S, "anil"), ht.S))
					} else {
						fc.factIf(reach, eq(rt.S, ht.S))
					}
				}
			}
		} else if herr != nil {
			fc.unsupported("%v", herr)
		}
	}
	for _, gs := range ct.Ghostset {
		// the callee performs the ghost assignment when it returns: location (post state) == value (post state)
		le, err1 := env.eval(gs.Loc)
		ve, err2 := env.eval(gs.Val)
		if err1 != nil || err2 != nil {
			fc.unsupported("ghostset of %s: %v %v", ct.Key, err1, err2)
			continue
		}
		fc.factIf(reach, eq(le.T.S, ve.T.S))
	}
	for _, cl := range append(append([]*Clause{}, ct.Ensures...), ct.Ghostdef...) {
		t, err := env.evalBool(cl.Expr)
		if err != nil {
			fc.unsupported("postcondition of %s: %v", ct.Key, err)
			continue
		}
		fc.factIf(reach, t.S)
	}
	return ret
}

func sanitizeName(s string) string {
	r := strings.NewReplacer("(", "", ")", "", "*", "", " ", "_")
	return r.Replace(s)
}

func (fc *FnCtx) pendingHavoc(st *State, name string) {
	// array not yet used in this function: make sure its first use after the call is not the entry version
	if st.epoch == 0 {
		fc.nfresh++
		st.epoch = fc.nfresh
	}
}

func (fr *frame) checkRecursion(ct *FuncContract, env *Env, reach string, pos token.Pos) {
	fc := fr.fc
	// measure at entry (own parameters) vs at the call (arguments)
	own := fc.contractEnv(fc.c, fr.fn, nil, fr.old, fr.old)
	var alts, eqs []string
	for _, cl := range ct.Decreases {
		m0, err := own.eval(cl.Expr)
		if err != nil {
			fc.unsupported("decreases: %v", err)
			return
		}
		m1, err := env.eval(cl.Expr)
		if err != nil {
			fc.unsupported("decreases: %v", err)
			return
		}
		alts = append(alts, and(append(append([]string{}, eqs...), fmt.Sprintf("(< %s %s)", m1.T.S, m0.T.S), fmt.Sprintf("(<= 0 %s)", m0.T.S))...))
		eqs = append(eqs, eq(m1.T.S, m0.T.S))
	}
	fc.oblig("termination", "recursion.decreases", or(alts...), reach, pos, nil).Src = "recursive call decreases the measure"
}

// inline executes the body of a closure / trivial function in place.
func (fr *frame) inline(f *ssa.Function, args, bindings []Val, st *State, reach string, pos token.Pos, in ssa.Instruction) Val {
	fc := fr.fc
	if fc.inlineDepth > 6 {
		fc.unsupported("inlining depth exceeded at %s", f.Name())
		return fr.freshResults(f.Signature, st, "r_inl")
	}
	sub := fc.newFrame(f, false)
	sub.old = fr.old
	sub.parent = fr
	if in != nil {
		sub.callBlock = in.Block()
	}
	if fc.curFrame == fr {
		sub.atBlock = fc.curBlock // where the caller is now (a deferred call or goroutine runs later than its statement)
	} else {
		sub.atBlock = sub.callBlock
	}
	if len(sub.loops) > 0 && (fc.c == nil || fc.c.InlineLoops[f.Name()] == nil) {
		fc.unsupported("inlined function %s contains a loop (the caller's contract gives no `loop %s:<n>` invariants)", fnKey(f), f.Name())
		return fr.unknownCall(fnKey(f), f.Signature, st, reach, pos)
	}
	for i, p := range f.Params {
		if i < len(args) {
			sub.vals[p] = args[i]
		}
	}
	for i, fv := range f.FreeVars {
		if i < len(bindings) {
			sub.vals[fv] = bindings[i]
		}
	}
	fc.inlineDepth++
	sub.run(st, reach)
	fc.inlineDepth--
	if len(sub.rets) == 0 {
		// never returns normally
		return fr.freshResults(f.Signature, st, "r_inl")
	}
	// the caller continues only if the inlined body took one of its return paths (with loops in the
	// body this carries the loop exit conditions into the caller's path condition)
	{
		var rc []string
		for _, r := range sub.rets {
			rc = append(rc, r.cond)
		}
		fc.factIf(reach, or(rc...))
	}
	if len(sub.rets) == 1 {
		*st = *sub.rets[0].st
		return packVals(sub.rets[0].vals)
	}
	// merge return states
	names := map[string]string{}
	epoch := 0
	for _, r := range sub.rets {
		if r.st.epoch > epoch {
			epoch = r.st.epoch
		}
		for k, v := range r.st.heap {
			names[k] = v.Sort
		}
	}
	merged := &State{heap: map[string]Term{}, epoch: epoch}
	var keys []string
	for k := range names {
		keys = append(keys, k)
	}
	sort.Strings(keys)
	for _, k := range keys {
		same := true
		var first Term
		for n, r := range sub.rets {
			t := fc.heapGet(r.st, k, names[k])
			if n == 0 {
				first = t
			} else if t.S != first.S {
				same = false
			}
		}
		if same {
			merged.heap[k] = first
			continue
		}
		j := fc.fresh(k+"_r", names[k])
		for _, r := range sub.rets {
			fc.factIf(r.cond, eq(j.S, r.st.heap[k].S))
		}
		merged.heap[k] = j
	}
	*st = *merged
	n := len(sub.rets[0].vals)
	var out []Val
	for i := 0; i < n; i++ {
		srt := fc.e.sortOf(f.Signature.Results().At(i).Type())
		v := fc.fresh("ret_"+f.Name(), srt)
		for _, r := range sub.rets {
			if t, ok := r.vals[i].(Term); ok {
				fc.factIf(r.cond, eq(v.S, t.S))
			}
		}
		out = append(out, v)
	}
	return packVals(out)
}

func packVals(vs []Val) Val {
	switch len(vs) {
	case 0:
		return nil
	case 1:
		return vs[0]
	}
	return &Tuple{vs}
}

// dynCandidates: package-level functions whose signature is identical to t.
func (e *Engine) dynCandidates(t types.Type) []*ssa.Function {
	sig, ok := t.Underlying().(*types.Signature)
	if !ok {
		return nil
	}
	var out []*ssa.Function
	for _, f := range e.funcs {
		if f.Pkg == nil || f.Signature.Recv() != nil || f.Synthetic != "" {
			continue
		}
		if f.Parent() != nil {
			// a closure is a candidate only when its contract says so (opt dyn-target): closures of hook
			// types are called through the contract of their function type instead
			if ct := e.specs.Funcs[fnKey(f)]; ct == nil || ct.Opts["dyn-target"] == "" {
				continue
			}
		}
		if !strings.HasPrefix(f.Pkg.Pkg.Path(), "github.com/google/badwolf") {
			continue
		}
		if types.Identical(f.Signature, sig) && e.specs.Funcs[fnKey(f)] != nil {
			out = append(out, f)
		}
	}
	sort.Slice(out, func(i, j int) bool { return fnKey(out[i]) < fnKey(out[j]) })
	return out
}

// dynCall: call through a function value with a finite set of known targets.
func (fr *frame) dynCall(fv Term, c *ssa.CallCommon, args []Val, st *State, reach string, pos token.Pos) Val {
	fc := fr.fc
	cands := fc.e.dynCandidates(c.Value.Type())
	if len(cands) == 0 {
		// a contract attached to the function type?
		for _, ft := range fc.e.specs.FuncTypes {
			t, _, err := fc.e.resolveType(ft.Type, ft.Pkg)
			if err != nil || t == nil || !types.Identical(t, c.Value.Type()) {
				continue
			}
			fr.safety("nilfunc", not(eq(fv.S, "0")), reach, pos, "call of nil function value")
			for k, cl := range ft.Requires {
				renv := &Env{fc: fc, pkg: ft.Pkg, vars: map[string]CVal{}, bound: map[string]CVal{}, st: st, old: st}
				sig := c.Signature()
				for q := 0; q < sig.Params().Len() && q < len(args); q++ {
					if at, ok := args[q].(Term); ok {
						renv.vars[fmt.Sprintf("$%d", q)] = CVal{at, sig.Params().At(q).Type()}
					}
				}
				t, err := renv.evalBool(cl.Expr)
				if err != nil {
					fc.unsupported("functype %s requires: %v", ft.Type, err)
					continue
				}
				o := fc.oblig("pre", fmt.Sprintf("call.functype.%s.pre.%d", sanitize(ft.Type), k), t.S, reach, pos, nil)
				o.Src = cl.Src
			}
			keep := map[string]Term{}
			hookPkg := ""
			for k := 0; k+1 < len(ft.Preserves); k++ {
				if ft.Preserves[k] != "package" {
					continue
				}
				hookPkg = ft.Preserves[k+1]
				for n, v := range st.heap {
					if fc.ownedBy(n, hookPkg) {
						keep[n] = v
					}
				}
			}
			for _, pn := range ft.Preserves {
				if pn == "package" || strings.Contains(pn, "/") {
					continue
				}
				pt, _, err := fc.e.resolveType(pn, ft.Pkg)
				if err != nil || pt == nil {
					fc.unsupported("functype %s: %v", ft.Type, err)
					continue
				}
				if stt, ok := pt.Underlying().(*types.Struct); ok {
					for k := 0; k < stt.NumFields(); k++ {
						n := fieldArrName(pt, stt.Field(k).Name())
						keep[n] = fc.heapGet(st, n, arr(SInt, fc.e.sortOf(stt.Field(k).Type())))
					}
				}
			}
			if fc.c != nil && !fc.modEvery && !(hookPkg != "" && fc.c.Opts["modifies-outside"] == hookPkg) {
				fc.oblig("frame", "frame.call.functype."+sanitize(ft.Type), "false", reach, pos, nil).Src = "values of type " + ft.Type + " may modify anything but " + strings.Join(ft.Preserves, ", ")
			}
			if os.Getenv("GOWP_DEBUG_FRAME") != "" {
				var ks, hs []string
				for n := range keep {
					ks = append(ks, n)
				}
				for n := range st.heap {
					if _, ok := keep[n]; !ok {
						hs = append(hs, n)
					}
				}
				sort.Strings(ks)
				sort.Strings(hs)
				fmt.Fprintf(os.Stderr, "functype call in %s: keep %v\n   havoc %v\n", fc.short, ks, hs)
				for _, h := range hs {
					if i := strings.LastIndex(h, "$R"); i >= 0 {
						var id int
						fmt.Sscanf(h[i+1:], "R%d", &id)
						if n := fc.e.reg.byID[id]; n != nil {
							rep := fc.e.reg.find(n)
							fmt.Fprintf(os.Stderr, "   region %s: desc=%s rep=%s pkgs=%v declPkg=%s\n", h[i+1:], n.desc, rep.desc, rep.pkgs, n.declPkg)
						}
					}
				}
			}
			fr.havocAll(st)
			for n, v := range keep {
				st.heap[n] = v
			}
			fc.trusted["function type "+ft.Type+": calls leave "+strings.Join(ft.Preserves, ", ")+" untouched (the hook implementations live in a package that cannot name that type)"] = true
			return fr.freshResults(c.Signature(), st, "r_hook")
		}
		return fr.unknownCall("function value of type "+shortType(c.Value.Type()), c.Signature(), st, reach, pos)
	}
	fr.safety("nilfunc", not(eq(fv.S, "0")), reach, pos, "call of nil function value")
	// the value is one of the candidates (named function type closed over the package: checked by the caller's contract)
	var alts []string
	for _, f := range cands {
		alts = append(alts, eq(fv.S, strconv.Itoa(fc.e.funcTag(fnKey(f)))))
	}
	o := fc.oblig("pre", "call.dynamic.target-known", or(alts...), reach, pos, nil)
	o.Src = "function value is one of the " + strconv.Itoa(len(cands)) + " functions under contract with this signature"
	// execute each candidate on a copy, merge
	pre := st.clone()
	type res struct {
		cond string
		st   *State
		v    Val
	}
	var rs []res
	for _, f := range cands {
		cond := and(reach, eq(fv.S, strconv.Itoa(fc.e.funcTag(fnKey(f)))))
		s2 := pre.clone()
		v := fr.applyContract(fc.e.specs.Funcs[fnKey(f)], f, f.Signature, args, c.Args, nil, s2, cond, pos)
		rs = append(rs, res{cond, s2, v})
	}
	names := map[string]string{}
	epoch := 0
	for _, r := range rs {
		if r.st.epoch > epoch {
			epoch = r.st.epoch
		}
		for k, v := range r.st.heap {
			names[k] = v.Sort
		}
	}
	st.epoch = epoch
	var keys []string
	for k := range names {
		keys = append(keys, k)
	}
	sort.Strings(keys)
	for _, k := range keys {
		same := true
		var first Term
		for n, r := range rs {
			t := fc.heapGet(r.st, k, names[k])
			if n == 0 {
				first = t
			} else if t.S != first.S {
				same = false
			}
		}
		if same {
			st.heap[k] = first
			continue
		}
		j := fc.fresh(k+"_d", names[k])
		for _, r := range rs {
			fc.factIf(r.cond, eq(j.S, r.st.heap[k].S))
		}
		st.heap[k] = j
	}
	sig := c.Signature()
	if sig.Results().Len() == 0 {
		return nil
	}
	var out []Val
	for i := 0; i < sig.Results().Len(); i++ {
		srt := fc.e.sortOf(sig.Results().At(i).Type())
		v := fc.fresh("dyn_r", srt)
		for _, r := range rs {
			var t Val = r.v
			if tp, ok := r.v.(*Tuple); ok {
				t = tp.Elems[i]
			}
			if tt, ok := t.(Term); ok {
				fc.factIf(r.cond, eq(v.S, tt.S))
			}
		}
		out = append(out, v)
	}
	return packVals(out)
}

func (fr *frame) builtin(b *ssa.Builtin, in ssa.Instruction, c *ssa.CallCommon, args []Val, st *State, reach string) Val {
	fc := fr.fc
	pos := in.Pos()
	switch b.Name() {
	case "len":
		if _, isMap := c.Args[0].Type().Underlying().(*types.Map); isMap {
			fr.guardCheck(c.Args[0], false, reach, pos)
		}
		switch x := args[0].(type) {
		case Term:
			switch {
			case x.Sort == SString:
				return Term{"(str.len " + x.S + ")", SInt}
			case isSlc(x.Sort):
				return Term{"(slen " + x.S + ")", SInt}
			case x.Sort == SInt:
				if mt, ok := c.Args[0].Type().Underlying().(*types.Map); ok {
					// cardinality: uninterpreted over the domain set, with emptiness facts
					dn, _, ks, _ := fc.mapArrs(mt, fc.e.regionOf(c.Args[0]))
					dom := fc.heapGet(st, dn, arr(SInt, arr(ks, SBool)))
					fname := "card$" + sanitize(ks)
					fc.declareFun(fname, []string{arr(ks, SBool)}, SInt)
					d := sel(dom.S, x.S)
					v := fc.define("maplen", Term{"(" + fname + " " + d + ")", SInt})
					fc.fact(fmt.Sprintf("(<= 0 %s)", v.S))
					fc.fact(fmt.Sprintf("(= (= %s 0) (forall ((k %s)) (! (not (select %s k)) :pattern ((select %s k)))))", v.S, ks, d, d))
					return v
				}
			}
		case *VarArgSlice:
			return Term{strconv.Itoa(len(x.Elems)), SInt}
		}
		fc.unsupported("len of %T in %s", args[0], fr.fn.Name())
		return fc.fresh("len", SInt)
	case "cap":
		fc.unsupported("cap() in %s (capacity not modelled)", fr.fn.Name())
		return fc.fresh("cap", SInt)
	case "append":
		s, ok := args[0].(Term)
		if !ok {
			fc.unsupported("append to %T", args[0])
			return fc.fresh("app", fc.e.sortOf(c.Args[0].Type()))
		}
		if s.Sort == SString {
			// []byte append
			switch y := args[1].(type) {
			case Term:
				return fc.define("app", Term{"(str.++ " + s.S + " " + y.S + ")", SString})
			case *VarArgSlice:
				t := s.S
				for _, e := range y.Elems {
					t = fmt.Sprintf("(str.++ %s (str.from_code %s))", t, e.(Term).S)
				}
				return fc.define("app", Term{t, SString})
			}
		}
		if isSlc(s.Sort) {
			switch y := args[1].(type) {
			case *VarArgSlice:
				cur := s
				for _, e := range y.Elems {
					et := e.(Term)
					prev := cur
					cur = fc.define("app", Term{fmt.Sprintf("(mkslc (store (sarr %s) (+ (soff %s) (slen %s)) %s) (soff %s) (+ (slen %s) 1))", cur.S, cur.S, cur.S, et.S, cur.S, cur.S), s.Sort})
					// element view of the append (triggers on the old slice's elements as well)
					fc.fact(fmt.Sprintf("(forall ((j Int)) (! (=> (and (<= 0 j) (< j (slen %s))) (= %s %s)) :pattern (%s) :pattern (%s)))", prev.S, fc.slcAt(cur, "j").S, fc.slcAt(prev, "j").S, fc.slcAt(cur, "j").S, fc.slcAt(prev, "j").S))
					fc.fact(fmt.Sprintf("(= %s %s)", fc.slcAt(cur, "(slen "+prev.S+")").S, et.S))
				}
				return cur
			case Term:
				// append(s, t...): result = s ++ t, elementwise
				r := fc.fresh("app", s.Sort)
				fc.fact(fmt.Sprintf("(and (= (soff %s) 0) (= (slen %s) (+ (slen %s) (slen %s))))", r.S, r.S, s.S, y.S))
				fc.fact(fmt.Sprintf("(forall ((k Int)) (! (=> (and (<= 0 k) (< k (slen %s))) (= %s %s)) :pattern (%s) :pattern (%s)))", s.S, fc.slcAt(r, "k").S, fc.slcAt(s, "k").S, fc.slcAt(r, "k").S, fc.slcAt(s, "k").S))
				fc.fact(fmt.Sprintf("(forall ((k Int)) (! (=> (and (<= 0 k) (< k (slen %s))) (= %s %s)) :pattern (%s)))", y.S, fc.slcAt(r, "(+ (slen "+s.S+") k)").S, fc.slcAt(y, "k").S, fc.slcAt(y, "k").S))
				fc.fact(fmt.Sprintf("(forall ((k Int)) (! (=> (and (<= (slen %s) k) (< k (slen %s))) (= %s %s)) :pattern (%s)))", s.S, r.S, fc.slcAt(r, "k").S, fc.slcAt(y, "(- k (slen "+s.S+"))").S, fc.slcAt(r, "k").S))
				return r
			}
		}
		fc.unsupported("append on sort %s in %s", s.Sort, fr.fn.Name())
		return fc.fresh("app", s.Sort)
	case "delete":
		fr.guardCheck(c.Args[0], true, reach, pos)
		m := args[0].(Term)
		k := args[1].(Term)
		mt := c.Args[0].Type().Underlying().(*types.Map)
		dn, _, ks, _ := fc.mapArrs(mt, fc.e.regionOf(c.Args[0]))
		dom := fc.heapGet(st, dn, arr(SInt, arr(ks, SBool)))
		// delete on a nil map is a no-op
		fr.frameCheckOrNil(st, dn, m, reach, pos)
		fc.heapSet(st, dn, Term{fmt.Sprintf("(ite (= %s 0) %s %s)", m.S, dom.S, store(dom.S, m.S, store(sel(dom.S, m.S), k.S, "false"))), dom.Sort})
		return nil
	case "close":
		fr.chanClose(st, args[0].(Term), reach, pos)
		return nil
	case "panic":
		fc.oblig("safety", "safety.panic", "false", reach, pos, nil).Src = "explicit panic reachable"
		return nil
	case "copy":
		// supported shape: copy((*p)[a:b], src) with byte slices - the bytes are written back to *p
		if sl, ok := c.Args[0].(*ssa.Slice); ok {
			if ld, ok := sl.X.(*ssa.UnOp); ok && ld.Op == token.MUL {
				if pr, ok := fr.val(ld.X).(Term); ok && pr.Sort == SInt {
					elemT := ptrElem(ld.X.Type())
					cur, isT := fr.loadRef(st, pr, elemT).(Term)
					src, isS := args[1].(Term)
					if isT && isS && cur.Sort == SString && src.Sort == SString {
						lo := "0"
						if sl.Low != nil {
							lo = fr.term(sl.Low).S
						}
						hi := "(str.len " + cur.S + ")"
						if sl.High != nil {
							hi = fr.term(sl.High).S
						}
						n := fc.define("copied", Term{fmt.Sprintf("(ite (< (str.len %s) (- %s %s)) (str.len %s) (- %s %s))", src.S, hi, lo, src.S, hi, lo), SInt})
						nw := fc.define("aftercopy", Term{fmt.Sprintf("(str.++ (str.substr %s 0 %s) (str.substr %s 0 %s) (str.substr %s (+ %s %s) (- (str.len %s) (+ %s %s))))", cur.S, lo, src.S, n.S, cur.S, lo, n.S, cur.S, lo, n.S), SString})
						fr.storeRef(st, pr, elemT, nw, reach, pos)
						return n
					}
				}
			}
		}
		if ms, ok := c.Args[0].(*ssa.MakeSlice); ok && ms.Block() == in.Block() {
			dst, isD := args[0].(Term)
			src, isS := args[1].(Term)
			if isD && isS && isSlc(dst.Sort) && dst.Sort == src.Sort {
				// dst was made in this block: no other alias; the copy rebinds it
				n := fc.define("copied", Term{fmt.Sprintf("(ite (< (slen %s) (slen %s)) (slen %s) (slen %s))", src.S, dst.S, src.S, dst.S), SInt})
				nd := fc.fresh("aftercopy", dst.Sort)
				fc.fact(fmt.Sprintf("(and (= (soff %s) 0) (= (slen %s) (slen %s)))", nd.S, nd.S, dst.S))
				fc.fact(fmt.Sprintf("(forall ((k Int)) (! (=> (and (<= 0 k) (< k (slen %s))) (= %s (ite (< k %s) %s %s))) :pattern (%s)))", dst.S, fc.slcAt(nd, "k").S, n.S, fc.slcAt(src, "k").S, fc.slcAt(dst, "k").S, fc.slcAt(nd, "k").S))
				fr.vals[ms] = nd
				return n
			}
		}
		fc.unsupported("copy() in %s (only copy((*p)[a:b], src) on byte slices and copy into a slice made in the same block are modelled)", fr.fn.Name())
		return fc.fresh("copy", SInt)
	case "min", "max":
		a, b2 := args[0].(Term), args[1].(Term)
		op := "<"
		if b.Name() == "max" {
			op = ">"
		}
		return Term{fmt.Sprintf("(ite (%s %s %s) %s %s)", op, a.S, b2.S, a.S, b2.S), SInt}
	case "print", "println":
		return nil
	}
	fc.unsupported("builtin %s in %s", b.Name(), fr.fn.Name())
	return nil
}

func (fr *frame) frameCheckOrNil(st *State, arrName string, ref Term, reach string, pos token.Pos) {
	fc := fr.fc
	if fc.c == nil || fc.modEvery || fc.modAll[arrName] {
		return
	}
	o := fc.oblig("frame", "frame."+arrName, or(eq(ref.S, "0"), fc.allowed(fr.old, arrName, ref.S)), reach, pos, nil)
	o.Src = "write to " + arrName + " must be covered by the modifies clause"
}

// ownedBy: the heap array belongs to package pkg (fields of its struct types, cells of its named
// types, its lock/ghost state, and map regions whose values occur only in its code).
func (fc *FnCtx) ownedBy(name, pkg string) bool {
	pkgName := pkg
	if i := strings.LastIndex(pkg, "/"); i >= 0 {
		pkgName = pkg[i+1:]
	}
	switch {
	case strings.HasPrefix(name, "F$"+pkgName+"_"), strings.HasPrefix(name, "D$"+pkgName+"_"), strings.HasPrefix(name, "D$p"+pkgName+"_"), strings.HasPrefix(name, "LK$"+pkgName+"_"), strings.HasPrefix(name, "G$"+pkgName+"_"):
		return true
	case strings.HasPrefix(name, "MD$"), strings.HasPrefix(name, "MV$"):
		if i := strings.LastIndex(name, "$R"); i >= 0 {
			return fc.e.regionOnlyIn(name[i+1:], pkg)
		}
	}
	return false
}

// havocOutside: every heap array not owned by pkg gets an unconstrained new version.
func (fr *frame) havocOutside(st *State, pkg string) {
	fc := fr.fc
	keep := map[string]Term{}
	for n, v := range st.heap {
		if fc.ownedBy(n, pkg) {
			keep[n] = v
		}
	}
	fr.havocAll(st)
	for n, v := range keep {
		st.heap[n] = v
	}
}


// ifaceDispatch: a method call through an interface that has no contract of its own is split over
// the implementations of the interface in the repository (closed world: every type of the loaded
// program whose method set implements the interface), provided each of them is under contract.
// The obligation call.dynamic.receiver-known states that the receiver is one of them.
func (fr *frame) ifaceDispatch(recv Term, c *ssa.CallCommon, args []Val, st *State, reach string, pos token.Pos) (Val, bool) {
	fc := fr.fc
	iface, ok := c.Value.Type().Underlying().(*types.Interface)
	if !ok {
		return nil, false
	}
	var impls []string
	for k, f := range fc.e.funcs {
		if f.Name() != c.Method.Name() || f.Signature.Recv() == nil || f.Pkg == nil || f.Synthetic != "" {
			continue
		}
		if !strings.HasPrefix(f.Pkg.Pkg.Path(), "github.com/google/badwolf") {
			continue
		}
		if !types.Implements(f.Signature.Recv().Type(), iface) {
			continue
		}
		impls = append(impls, k)
	}
	sort.Strings(impls)
	if len(impls) == 0 {
		return nil, false
	}
	for _, k := range impls {
		if fc.e.specs.Funcs[k] == nil {
			return nil, false
		}
	}
	type res struct {
		cond string
		st   *State
		v    Val
	}
	var alts []string
	var conds []string
	for _, k := range impls {
		f := fc.e.funcs[k]
		is := fc.e.hasType(recv, f.Signature.Recv().Type()).S
		alts = append(alts, is)
		conds = append(conds, is)
	}
	o := fc.oblig("pre", "call.dynamic.receiver-known", or(alts...), reach, pos, nil)
	o.Src = "the receiver of " + c.Method.Name() + " is one of the " + strconv.Itoa(len(impls)) + " implementations under contract: " + strings.Join(impls, ", ")
	fc.trusted["closed world: the implementations of "+shortType(c.Value.Type())+" are those of the repository"] = true
	pre := st.clone()
	var rs []res
	for n, k := range impls {
		f := fc.e.funcs[k]
		cond := and(reach, conds[n])
		s2 := pre.clone()
		a2 := append([]Val{fc.e.unbox(recv, f.Signature.Recv().Type())}, args[1:]...)
		// the contract's parameters: receiver first
		sub := append([]*ssa.Parameter{}, f.Params...)
		_ = sub
		v := fr.applyContract(fc.e.specs.Funcs[k], f, f.Signature, a2, append([]ssa.Value{nil}, c.Args...), nil, s2, cond, pos)
		rs = append(rs, res{cond, s2, v})
	}
	names := map[string]string{}
	epoch := 0
	for _, r := range rs {
		if r.st.epoch > epoch {
			epoch = r.st.epoch
		}
		for k, v := range r.st.heap {
			names[k] = v.Sort
		}
	}
	st.epoch = epoch
	var keys []string
	for k := range names {
		keys = append(keys, k)
	}
	sort.Strings(keys)
	for _, k := range keys {
		same := true
		var first Term
		for n, r := range rs {
			t := fc.heapGet(r.st, k, names[k])
			if n == 0 {
				first = t
			} else if t.S != first.S {
				same = false
			}
		}
		if same {
			st.heap[k] = first
			continue
		}
		j := fc.fresh(k+"_d", names[k])
		for _, r := range rs {
			fc.factIf(r.cond, eq(j.S, r.st.heap[k].S))
		}
		st.heap[k] = j
	}
	sig := c.Signature()
	if sig.Results().Len() == 0 {
		return nil, true
	}
	var out []Val
	for i := 0; i < sig.Results().Len(); i++ {
		srt := fc.e.sortOf(sig.Results().At(i).Type())
		v := fc.fresh("dyn_r", srt)
		for _, r := range rs {
			var t Val = r.v
			if tp, ok := r.v.(*Tuple); ok {
				t = tp.Elems[i]
			}
			if tt, ok := t.(Term); ok {
				fc.factIf(r.cond, eq(v.S, tt.S))
			}
		}
		out = append(out, v)
	}
	return packVals(out), true
}


// atCallAsserts: the `atcall <callee> assert[...]` clauses of the function under verification that
// name this callee become obligations at this call site; the callee's parameter names denote the
// actual arguments.
func (fr *frame) atCallAsserts(name, alt string, pnames []string, ptypes []types.Type, args []Val, in ssa.Instruction, st *State, reach string) {
	fc := fr.fc
	if fc.c == nil {
		return
	}
	if !fr.top {
		// also inside an inlined function literal of the function under verification
		isOwn := false
		for p := fr.fn.Parent(); p != nil; p = p.Parent() {
			if p == fc.fn {
				isOwn = true
			}
		}
		if !isOwn {
			return
		}
	}
	for _, ac := range fc.c.AtCalls {
		if ac.Callee != name && ac.Callee != alt {
			continue
		}
		env := fc.contractEnv(fc.c, fr.fn, nil, st, fr.old)
		env.fr = fr
		blk := in.Block()
		env.lookup = func(name string) (CVal, bool) { return fr.lookupVarAt(name, blk) }
		env.lookupAddr = fr.lookupAddr
		var actuals []ssa.Value
		if ci, ok := in.(ssa.CallInstruction); ok {
			cc := ci.Common()
			actuals = cc.Args
			if cc.IsInvoke() {
				actuals = append([]ssa.Value{cc.Value}, cc.Args...)
			}
		}
		for k, p := range pnames {
			if k < len(args) && p != "" && p != "_" {
				if t, ok := args[k].(Term); ok {
					pt := ptypes[k]
					if len(actuals) == len(args) && isMapType(pt) {
						// a map parameter denotes the actual argument: its contents live in the
						// argument's alias region, not in the region of the callee's parameter
						if reg := fc.e.regionOf(actuals[k]); reg != "" {
							pt = withReg(pt, reg)
						}
					}
					env.bound[p] = CVal{t, pt}
				} else if cl, ok := args[k].(*Closure); ok {
					env.bound[p] = CVal{Term{strconv.Itoa(fc.e.funcTag(fnKey(cl.Fn))), SInt}, ptypes[k]}
				}
			}
		}
		t, err := env.evalBool(ac.Clause.Expr)
		if err != nil {
			fc.unsupported("atcall %s %s: %v", ac.Callee, ac.Clause.Name, err)
			continue
		}
		fc.atCallSeen[ac] = true
		o := fc.oblig("assert", "atcall."+sanitizeName(ac.Callee)+"."+ac.Clause.Name, t.S, reach, in.Pos(), ac.Clause.Props)
		o.Src = ac.Clause.Src
		if len(ac.Clause.Props) == 0 {
			// assert, then assume: what follows may rely on the assertion (it is an obligation of its
			// own in every check that includes the function)
			fc.factIf(reach, t.S)
		}
	}
}


// valueName: the source name of the variable a function value is read from.
func valueName(v ssa.Value) string {
	switch x := v.(type) {
	case *ssa.Parameter:
		return x.Name()
	case *ssa.FreeVar:
		return x.Name()
	case *ssa.UnOp:
		switch y := x.X.(type) {
		case *ssa.FreeVar:
			return y.Name()
		case *ssa.Alloc:
			return y.Comment
		}
	}
	return ""
}


// sliceLiteral: the slice value of a composite literal / variadic argument list whose elements are
// all symbolic terms.
func (fc *FnCtx) sliceLiteral(x *VarArgSlice, t types.Type) (Term, bool) {
	if t == nil {
		return Term{}, false
	}
	st, ok := t.Underlying().(*types.Slice)
	if !ok || isByte(st.Elem()) {
		return Term{}, false
	}
	es := fc.e.sortOf(st.Elem())
	a := fmt.Sprintf("((as const %s) %s)", arr(SInt, es), fc.e.zero(es, st.Elem()).S)
	for i, el := range x.Elems {
		et, isT := el.(Term)
		if !isT {
			return Term{}, false
		}
		a = store(a, strconv.Itoa(i), et.S)
	}
	lit := fc.define("lit", Term{fmt.Sprintf("(mkslc %s 0 %d)", a, len(x.Elems)), slc(es)})
	for i, el := range x.Elems {
		// element view (also puts the terms lit[i] on the table for quantifier instantiation)
		fc.fact(eq(fc.slcAt(lit, strconv.Itoa(i)).S, el.(Term).S))
	}
	return lit, true
}
