package main

import (
	"flag"
	"fmt"
	"os"
	"sort"
	"strings"
	"time"
)

func main() {
	if len(os.Args) < 2 {
		fmt.Fprintln(os.Stderr, "usage: gowp check <ID> [--tier quick|thorough] | gowp dev <substr> | gowp replay <file>")
		os.Exit(2)
	}
	switch os.Args[1] {
	case "dev":
		devMain(os.Args[2:])
	case "check":
		os.Exit(checkMain(os.Args[2:]))
	case "replay":
		os.Exit(replayMain(os.Args[2:]))
	default:
		fmt.Fprintln(os.Stderr, "unknown command", os.Args[1])
		os.Exit(2)
	}
}

func verifRoot() string {
	if v := os.Getenv("VERIF_ROOT"); v != "" {
		return v
	}
	return "/verif"
}

func repoRoot() string {
	if v := os.Getenv("VERIF_REPO"); v != "" {
		return v
	}
	return "/repo"
}

// dev: verify the functions whose key contains the given substring, print every obligation.
func devMain(args []string) {
	fs := flag.NewFlagSet("dev", flag.ExitOnError)
	timeout := fs.Duration("timeout", 10*time.Second, "per-obligation timeout")
	keep := fs.String("keep", "/tmp/gowp-dev", "directory for smt files")
	verbose := fs.Bool("v", false, "print discharged obligations too")
	lemmas := fs.Bool("lemmas", false, "also run lemmas whose name contains the substring")
	only := fs.String("only", "", "keep only obligations whose name contains this substring")
	fs.Parse(args)
	sub := fs.Arg(0)
	t0 := time.Now()
	e, err := LoadEngine(repoRoot(), verifRoot()+"/spec")
	if err != nil {
		fmt.Fprintln(os.Stderr, "load:", err)
		os.Exit(2)
	}
	fmt.Printf("loaded in %.1fs: %d contracts, %d spec functions, %d lemmas\n", time.Since(t0).Seconds(), len(e.specs.Funcs), len(e.specs.Spec), len(e.specs.Lemmas))
	os.MkdirAll(*keep, 0o755)
	var keys []string
	if strings.HasPrefix(sub, "lemma:") {
		sub = strings.TrimPrefix(sub, "lemma:")
		*lemmas = true
		keys = nil
		goto lemmasOnly
	}
	for k := range e.specs.Funcs {
		if strings.Contains(k, sub) {
			keys = append(keys, k)
		}
	}
lemmasOnly:
	sort.Strings(keys)
	var obs []*Oblig
	var fcs []*FnCtx
	for _, k := range keys {
		c := e.specs.Funcs[k]
		if c.Trusted || c.NoBody {
			continue
		}
		fc := e.VerifyFunc(c)
		if *only != "" {
			var keep []*Oblig
			for _, o := range fc.obligs {
				if strings.Contains(o.Name, *only) {
					keep = append(keep, o)
				}
			}
			fc.obligs = keep
		}
		fcs = append(fcs, fc)
		obs = append(obs, fc.obligs...)
	}
	if *lemmas {
		var axioms []*Lemma
		for _, l := range e.specs.Lemmas {
			if l.Axiom {
				axioms = append(axioms, l)
			}
		}
		for _, l := range e.specs.Lemmas {
			if !l.Axiom && strings.Contains(l.Name, sub) {
				fc := e.VerifyLemma(l, axioms)
				fcs = append(fcs, fc)
				obs = append(obs, fc.obligs...)
			}
		}
	}
	tgen := time.Since(t0).Seconds()
	SolveFns(fcs, nil, *keep, *timeout, false)
	fmt.Printf("generated in %.1fs\n", tgen)
	nok := 0
	for _, o := range obs {
		ok := okResult(o)
		if ok {
			nok++
			if !*verbose {
				continue
			}
		}
		fmt.Printf("%-8s %-70s %s %.2fs  %s:%d\n", strings.ToUpper(o.result.Status), o.Name, o.result.Solver, o.result.Seconds, shortFile(o.Pos.Filename), o.Pos.Line)
		if !ok {
			fmt.Printf("         src: %s\n", o.Src)
			if len(o.result.Model) > 0 {
				fmt.Printf("         model: %v\n", o.result.Model)
			}
			if o.result.Status == "error" {
				fmt.Printf("         raw: %s\n", firstLines(o.result.Raw, 4))
			}
			fmt.Printf("         file: %s\n", o.result.File)
		}
	}
	fmt.Printf("%d/%d obligations ok, %.1fs\n", nok, len(obs), time.Since(t0).Seconds())
	for _, w := range e.warnings {
		fmt.Println("warning:", w)
	}
}

func shortFile(f string) string {
	return strings.TrimPrefix(f, repoRoot()+"/")
}
