package main

import (
	"fmt"
	"regexp"
	"go/types"
	"sort"
	"strings"

	"golang.org/x/tools/go/ssa"
)

func (e *Engine) newFnCtx(key string, fn *ssa.Function, c *FuncContract) *FnCtx {
	fc := &FnCtx{e: e, fn: fn, c: c, key: key, short: shortKey(key), declSet: map[string]bool{}, base: map[string]Term{}, baseSort: map[string]string{},
		modset: map[string][]Term{}, modpred: map[string][]string{}, modAll: map[string]bool{}, trusted: map[string]bool{}, params: map[string]CVal{}, counter: map[string]int{}, atCallSeen: map[*AtCall]bool{}, cellClosure: map[string]*Closure{},
		callees: map[string]bool{}, derived: map[string]bool{}}
	if c != nil {
		fc.props = c.Props
	}
	return fc
}

// VerifyFunc generates all obligations of one function under contract.
func (e *Engine) VerifyFunc(c *FuncContract) *FnCtx {
	fn := e.funcs[c.Key]
	fc := e.newFnCtx(c.Key, fn, c)
	if fn == nil {
		fc.unsupported("binding: contract for %s but no such function in the current tree", c.Key)
		return fc
	}
	if fn.Blocks == nil {
		fc.unsupported("binding: %s has no body", c.Key)
		return fc
	}
	st := &State{heap: map[string]Term{}}
	fc.entry = st
	// parameters
	bindParam := func(name string, t types.Type) Term {
		srt := e.sortOf(t)
		nm := "p$" + sanitize(name)
		fc.declare(nm, srt)
		v := Term{nm, srt}
		fc.inputs = append(fc.inputs, nm)
		fc.params[name] = CVal{v, t}
		switch {
		case srt == SInt && isRefType(t):
			fc.assumeAllocated(st, v)
		case srt == SInt:
			if lo, hi, ok := intRange(t); ok {
				fc.fact(fmt.Sprintf("(and (<= %s %s) (<= %s %s))", lo, v.S, v.S, hi))
			}
		case srt == SString && c.Opts["strings"] != "opaque":
			fc.fact(fmt.Sprintf("(str.in_re %s (re.* (re.range \"\\u{0}\" \"\\u{ff}\")))", v.S))
		case isSlc(srt):
			fc.fact(fmt.Sprintf("(and (<= 0 (soff %s)) (<= 0 (slen %s)))", v.S, v.S))
		}
		return v
	}
	fr := fc.newFrame(fn, true)
	for _, p := range fn.Params {
		fr.vals[p] = bindParam(p.Name(), withReg(p.Type(), e.regionOf(p)))
	}
	for _, fv := range fn.FreeVars {
		v := bindParam(fv.Name(), fv.Type())
		fr.vals[fv] = v
		if v.Sort == SInt && isRefType(fv.Type()) {
			fc.fact(not(eq(v.S, "0"))) // a captured variable is a cell: its address is never nil
		}
	}
	for _, ft := range e.specs.FuncTypes {
		if len(ft.Requires) == 0 {
			continue
		}
		t, _, err := e.resolveType(ft.Type, ft.Pkg)
		if err != nil || t == nil || !types.Identical(t.Underlying(), fn.Signature) {
			continue
		}
		// a function of a function type under contract is only ever called through that type (or with
		// the same precondition checked): it may assume the type's precondition
		renv := &Env{fc: fc, pkg: ft.Pkg, vars: map[string]CVal{}, bound: map[string]CVal{}, st: st, old: st}
		for q, p := range fn.Params {
			renv.vars[fmt.Sprintf("$%d", q)] = fc.params[p.Name()]
		}
		for _, cl := range ft.Requires {
			tt, err := renv.evalBool(cl.Expr)
			if err != nil {
				fc.unsupported("functype %s requires: %v", ft.Type, err)
				continue
			}
			fc.fact(tt.S)
			fc.trusted["function type "+ft.Type+": "+cl.Src+" (checked at every call through the type, assumed by its implementations)"] = true
		}
	}
	fr.old = st.clone()
	// nil maps are empty; globals etc. handled lazily
	env := fc.contractEnv(c, fn, nil, st, fr.old)
	// modifies set (evaluated in the entry state)
	if c.Opts["modifies-everything"] != "" {
		fc.modEvery = true
	}
	for _, n := range c.ModAll {
		for _, hn := range fc.resolveHeapNames(n, c.Pkg) {
			fc.modAll[hn] = true
		}
	}
	for _, m := range c.Modifies {
		locs, err := env.evalLocs(m)
		if err != nil {
			fc.unsupported("modifies: %v", err)
			continue
		}
		for _, l := range locs {
			if l.ref.Sort == "SCALAR" {
				fc.modAll[l.arr] = true
				continue
			}
			if l.pred != "" {
				fc.modpred[l.arr] = append(fc.modpred[l.arr], l.pred)
				continue
			}
			fc.modset[l.arr] = append(fc.modset[l.arr], fc.define("mod", l.ref))
		}
	}
	for _, nw := range c.NoWrite {
		locs, err := env.evalLocs(nw.Expr)
		if err != nil {
			fc.unsupported("nowrite: %v", err)
			continue
		}
		if fc.strict == nil {
			fc.strict = map[string][]strictLoc{}
		}
		for _, l := range locs {
			fc.strict[l.arr] = append(fc.strict[l.arr], strictLoc{fc.define("nowrite", l.ref), nw.Props, nw.Src})
		}
	}
	// requires
	var reqs []string
	for _, cl := range c.Requires {
		t, err := env.evalBool(cl.Expr)
		if err != nil {
			fc.unsupported("requires: %v", err)
			continue
		}
		fc.fact(t.S)
		reqs = append(reqs, t.S)
	}
	// captures: facts about the captured variables, established where the closure is created
	for _, cl := range c.Captures {
		t, err := env.evalBool(cl.Expr)
		if err != nil {
			fc.unsupported("captures: %v", err)
			continue
		}
		fc.fact(t.S)
	}
	// axioms the contract opts into (assumed; listed in the trusted base)
	for _, an := range strings.Fields(c.Opts["axioms"]) {
		found := false
		for _, ax := range e.specs.Lemmas {
			if ax.Name != an {
				continue
			}
			found = true
			aenv := &Env{fc: fc, pkg: ax.Pkg, vars: map[string]CVal{}, bound: map[string]CVal{}, st: st, old: fr.old}
			t, err := aenv.evalBool(closeLemma(ax))
			if err != nil {
				fc.unsupported("axiom %s: %v", an, err)
				continue
			}
			fc.fact(t.S)
			if ax.Axiom {
				fc.trusted["axiom "+ax.Name+": "+ax.Src] = true
			} else {
				fc.trusted["lemma "+ax.Name+" (proved as its own obligation)"] = true
			}
		}
		if !found {
			fc.unsupported("unknown axiom %s", an)
		}
	}
	// global invariants: assumed everywhere except in the function that establishes them
	for _, gi := range e.specs.GlobalInvs {
		genv := &Env{fc: fc, pkg: gi.Pkg, vars: map[string]CVal{}, bound: map[string]CVal{}, st: st, old: fr.old}
		if gi.By == c.Key {
			continue
		}
		t, err := genv.evalBool(gi.Expr)
		if err != nil {
			fc.unsupported("globalinv %s: %v", gi.Name, err)
			continue
		}
		fc.fact(t.S)
		fc.trusted["global invariant "+gi.Name+" (established by "+shortKey(gi.By)+", proved there; assumes package init has run)"] = true
	}
	fc.fieldInvParams(fn, st, true, "true", fn.Pos())
	// sync the old state with arrays materialised so far (they are all base versions)
	for k, v := range st.heap {
		if _, ok := fr.old.heap[k]; !ok {
			fr.old.heap[k] = v
		}
	}
	fr.old = st.clone()
	// cover: the precondition is satisfiable
	cov := fc.oblig("cover", "cover.requires", "false", "true", fn.Pos(), nil)
	cov.Cover = true
	cov.Src = "precondition is satisfiable (vacuity guard)"
	fr.run(st, "true")
	for _, ac := range c.AtCalls {
		if !fc.atCallSeen[ac] {
			fc.unsupported("binding: atcall %s: the function contains no call of %s", ac.Callee, ac.Callee)
		}
	}
	if only := c.Opts["obligations"]; only != "" {
		// The body is outside the subset except for the listed kinds of obligations (for example the
		// assertions attached to call sites): everything the unmodelled calls may touch is havoced, so
		// the other obligations would be meaningless and are not generated, not claimed, and reported
		// as such in the evidence.
		var keep []*Oblig
		for _, o := range fc.obligs {
			ok := o.Kind == "cover"
			for _, w := range strings.Fields(only) {
				// kind or kind:name-substring
				k, sub := w, ""
				if i := strings.Index(w, ":"); i >= 0 {
					k, sub = w[:i], w[i+1:]
				}
				if o.Kind == k && strings.Contains(o.Name, sub) {
					ok = true
				}
			}
			if ok {
				keep = append(keep, o)
			}
		}
		fc.obligs = keep
		fc.assumes = append(fc.assumes, shortKey(c.Key)+": only obligations of kind ["+only+"] are generated for this function; its unmodelled calls havoc the heap, safety and frame of its body are NOT claimed")
		var unsup []string
		for _, u := range fc.unsup {
			if strings.HasPrefix(u, "binding:") || strings.HasPrefix(u, "atcall") {
				unsup = append(unsup, u)
			}
		}
		fc.unsup = unsup
	}
	for _, u := range fc.unsup {
		o := fc.oblig("binding", "binding.subset", "false", "true", fn.Pos(), nil)
		o.Src = "outside the verifier's subset: " + u
	}
	return fc
}

// LemmaCtx: obligations for lemmas (closed formulas over spec functions).
func (e *Engine) VerifyLemma(l *Lemma, axioms []*Lemma) *FnCtx {
	fc := e.newFnCtx("lemma."+l.Name, nil, nil)
	fc.short = "lemma"
	fc.props = l.Props
	env := &Env{fc: fc, pkg: l.Pkg, vars: map[string]CVal{}, bound: map[string]CVal{}, st: &State{heap: map[string]Term{}}, old: &State{heap: map[string]Term{}}}
	if len(l.Using) > 0 {
		axioms = nil
		for _, n := range l.Using {
			if n == "-" {
				continue
			}
			if n == "@opaque" {
				fc.opaqueLemma = true
				continue
			}
			found := false
			for _, ax := range e.specs.Lemmas {
				if ax.Name == n && ax != l {
					axioms = append(axioms, ax)
					found = true
				}
			}
			if !found {
				fc.unsupported("lemma %s: unknown axiom or lemma %q", l.Name, n)
			}
		}
	}
	if len(l.Using) > 0 {
		axioms = nil
		for _, n := range l.Using {
			if n == "-" {
				continue
			}
			if n == "@opaque" {
				fc.opaqueLemma = true
				continue
			}
			found := false
			for _, ax := range e.specs.Lemmas {
				if ax.Name == n && ax != l {
					axioms = append(axioms, ax)
					found = true
				}
			}
			if !found {
				fc.unsupported("lemma %s: unknown axiom or lemma %q", l.Name, n)
			}
		}
	}
	for _, ax := range axioms {
		env.pkg = ax.Pkg
		t, err := env.evalBool(closeLemma(ax))
		if err != nil {
			fc.unsupported("axiom %s: %v", ax.Name, err)
			continue
		}
		fc.fact(t.S)
		if ax.Axiom {
			fc.trusted["axiom "+ax.Name+": "+ax.Src] = true
		} else {
			fc.trusted["lemma "+ax.Name+" (proved as its own obligation)"] = true
		}
	}
	env.pkg = l.Pkg
	for _, p := range l.Params {
		gt, srt, err := e.resolveType(p.Type, l.Pkg)
		if err != nil {
			fc.unsupported("lemma %s: %v", l.Name, err)
			continue
		}
		nm := "p$" + sanitize(p.Name)
		fc.declare(nm, srt)
		fc.inputs = append(fc.inputs, nm)
		env.vars[p.Name] = CVal{Term{nm, srt}, gt}
		fc.params[p.Name] = CVal{Term{nm, srt}, gt}
		if srt == SString && !fc.opaque() {
			fc.fact(fmt.Sprintf("(str.in_re %s (re.* (re.range \"\\u{0}\" \"\\u{ff}\")))", nm))
		}
	}
	fc.entry = env.st
	t, err := env.evalBool(l.Expr)
	if err != nil {
		fc.unsupported("lemma %s: %v", l.Name, err)
		o := fc.oblig("binding", l.Name+".binding", "false", "true", 0, l.Props)
		o.Src = err.Error()
		return fc
	}
	o := fc.oblig("lemma", l.Name, t.S, "true", 0, l.Props)
	o.Src = l.Src
	o.Lemma = l
	if l.Cover {
		o.Kind = "cover"
		o.Cover = true
		o.Goal = "false"
		o.Src = "the axioms used are not contradictory (vacuity guard)"
	}
	return fc
}

const opaquePrelude = `(declare-sort OStr 0)
(declare-fun ostr.cat (OStr OStr) OStr)
(declare-fun ostr.len (OStr) Int)
(declare-const ostr.empty OStr)
(assert (= (ostr.len ostr.empty) 0))
(assert (forall ((a OStr)) (! (>= (ostr.len a) 0) :pattern ((ostr.len a)))))
(assert (forall ((a OStr) (b OStr)) (! (= (ostr.len (ostr.cat a b)) (+ (ostr.len a) (ostr.len b))) :pattern ((ostr.cat a b)))))
(assert (forall ((a OStr) (b OStr) (c OStr) (d OStr)) (! (=> (and (= (ostr.cat a b) (ostr.cat c d)) (= (ostr.len a) (ostr.len c))) (and (= a c) (= b d))) :pattern ((ostr.cat a b) (ostr.cat c d)))))
`

var reStrLit = regexp.MustCompile(`"(?:[^"]|"")*"`)
var reStringSort = regexp.MustCompile(`\bString\b`)

// opaqueText rewrites an SMT script so that Go strings are values of an uninterpreted sort with
// concatenation and length only (every axiom used is a theorem about byte strings). Used for
// functions in which strings are only map keys; reported as unsupported if other operations occur.
func opaqueText(txt string) (string, error) {
	var out []string
	lits := map[string]string{}
	var litDecls []string
	for _, line := range strings.Split(txt, "\n") {
		if strings.Contains(line, "RegLan") || strings.HasPrefix(line, "(define-fun ws$re") {
			continue
		}
		line = reStrLit.ReplaceAllStringFunc(line, func(l string) string {
			if l == `""` {
				return "ostr.empty"
			}
			n, ok := lits[l]
			if !ok {
				n = fmt.Sprintf("ostr.lit%d", len(lits))
				lits[l] = n
				litDecls = append(litDecls, "(declare-const "+n+" OStr)")
			}
			return n
		})
		line = strings.ReplaceAll(line, "(str.++ ", "(ostr.cat ")
		line = strings.ReplaceAll(line, "(str.len ", "(ostr.len ")
		if strings.Contains(line, "(str.") || strings.Contains(line, "(re.") {
			if strings.HasPrefix(line, "(define-fun spec$") {
				// a pure spec definition that uses real string operations: forget its body (sound weakening)
				if d, ok := defineToDeclare(line); ok {
					line = reStringSort.ReplaceAllString(d, "OStr")
					out = append(out, line)
					continue
				}
			}
			return "", fmt.Errorf("string operation outside the opaque subset: %s", firstLines(line, 1))
		}
		line = reStringSort.ReplaceAllString(line, "OStr")
		out = append(out, line)
	}
	res := strings.Join(out, "\n")
	// prelude goes right after set-logic
	i := strings.Index(res, "(set-logic ALL)\n")
	if i >= 0 {
		i += len("(set-logic ALL)\n")
		distinct := ""
		if len(lits) > 0 {
			names := []string{"ostr.empty"}
			for _, n := range lits {
				names = append(names, n)
			}
			sort.Strings(names)
			distinct = "(assert (distinct " + strings.Join(names, " ") + "))\n"
		}
		res = res[:i] + opaquePrelude + strings.Join(litDecls, "\n") + "\n" + distinct + res[i:]
	}
	return res, nil
}

// smtFile renders one obligation as an SMT-LIB script.
func (o *Oblig) smtFile(getModel bool) string {
	txt := o.smtFileRaw(getModel)
	if o.Fc != nil && o.Fc.opaque() {
		t2, err := opaqueText(txt)
		if err != nil {
			return "(set-logic ALL)\n(echo \"" + strings.ReplaceAll(err.Error(), "\"", "'") + "\")\n(check-sat)\n"
		}
		return t2
	}
	return txt
}

func (o *Oblig) smtFileRaw(getModel bool) string {
	fc := o.Fc
	var sb strings.Builder
	sb.WriteString("(set-option :produce-models true)\n(set-logic ALL)\n")
	sb.WriteString(preludeAny)
	for _, d := range fc.e.structDecls() {
		sb.WriteString(d + "\n")
	}
	for _, d := range fc.e.boxDecls() {
		sb.WriteString(d + "\n")
	}
	for _, d := range fc.decls {
		if d != "" {
			sb.WriteString(d + "\n")
		}
	}
	n := o.NFacts
	if n > len(fc.facts) {
		n = len(fc.facts)
	}
	for _, f := range o.sliceFacts(fc.facts[:n]) {
		sb.WriteString("(assert " + f + ")\n")
	}
	for _, f := range o.ExtraAs {
		sb.WriteString("(assert " + f + ")\n")
	}
	if o.Reach != "" && o.Reach != "true" {
		sb.WriteString("(assert " + o.Reach + ")\n")
	}
	if !o.Cover {
		sb.WriteString("(assert (not " + o.Goal + "))\n")
	}
	sb.WriteString("(check-sat)\n")
	if getModel && len(o.Inputs) > 0 {
		sb.WriteString("(get-value (" + strings.Join(o.Inputs, " ") + "))\n")
	}
	return sb.String()
}

func sortedKeys(m map[string]bool) []string {
	out := []string{}
	for k := range m {
		out = append(out, k)
	}
	sort.Strings(out)
	return out
}

// closeLemma: a lemma with parameters, used as an assumption, is universally quantified over them.
func closeLemma(l *Lemma) Expr {
	if len(l.Params) == 0 {
		return l.Expr
	}
	return &EQuant{Forall: true, Vars: l.Params, Body: l.Expr}
}

// defineToDeclare turns "(define-fun f ((x S) ...) R body)" into "(declare-fun f (S ...) R)".
func defineToDeclare(line string) (string, bool) {
	rest := strings.TrimPrefix(line, "(define-fun ")
	sp := strings.Index(rest, " ")
	if sp < 0 {
		return "", false
	}
	name := rest[:sp]
	rest = rest[sp+1:]
	if !strings.HasPrefix(rest, "(") {
		return "", false
	}
	// parameter list
	depth, end := 0, -1
	for i, c := range rest {
		if c == '(' {
			depth++
		} else if c == ')' {
			depth--
			if depth == 0 {
				end = i
				break
			}
		}
	}
	if end < 0 {
		return "", false
	}
	params := rest[1:end]
	rest = strings.TrimSpace(rest[end+1:])
	// return sort
	var ret string
	if strings.HasPrefix(rest, "(") {
		depth = 0
		for i, c := range rest {
			if c == '(' {
				depth++
			} else if c == ')' {
				depth--
				if depth == 0 {
					ret = rest[:i+1]
					break
				}
			}
		}
	} else {
		ret = strings.SplitN(rest, " ", 2)[0]
	}
	// sorts of the parameters: "(x S) (y T)"
	var sorts []string
	p := strings.TrimSpace(params)
	for len(p) > 0 {
		if p[0] != '(' {
			return "", false
		}
		depth = 0
		j := -1
		for i, c := range p {
			if c == '(' {
				depth++
			} else if c == ')' {
				depth--
				if depth == 0 {
					j = i
					break
				}
			}
		}
		inner := p[1:j]
		k := strings.Index(inner, " ")
		sorts = append(sorts, strings.TrimSpace(inner[k+1:]))
		p = strings.TrimSpace(p[j+1:])
	}
	return "(declare-fun " + name + " (" + strings.Join(sorts, " ") + ") " + ret + ")", true
}
