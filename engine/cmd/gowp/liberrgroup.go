package main

// golang.org/x/sync/errgroup and semaphore under the fork/join model (`opt go-sequential`):
// Group.Go(f) runs f as a synchronous call and records its error if it is the first one,
// Group.Wait returns the recorded error (nil if none). This is errgroup's documented result
// ("the first non-nil error (if any)") for the schedule in which every function runs to completion
// when it is started; cancellation of the derived context is not modelled (ctx.Err() is
// unconstrained). semaphore.Weighted: Acquire may fail, Release does nothing.

import (
	"fmt"

	"golang.org/x/tools/go/ssa"
)

func egArr(fc *FnCtx, st *State) Term { return fc.heapGet(st, "EG$err", arr(SInt, SAny)) }

func init() {
	libModels["golang.org/x/sync/errgroup.WithContext"] = func(fr *frame, in ssa.Instruction, c *ssa.CallCommon, args []Val, st *State, reach string) Val {
		fc := fr.fc
		r := fc.newRef(st, "errgroup")
		a := egArr(fc, st)
		fc.heapSet(st, "EG$err", Term{store(a.S, r.S, "anil"), a.Sort})
		ctx := fc.fresh("gctx", SAny)
		fc.fact(not(eq(ctx.S, "anil")))
		return &Tuple{[]Val{r, ctx}}
	}
	libModels["golang.org/x/sync/errgroup.(*Group).Go"] = func(fr *frame, in ssa.Instruction, c *ssa.CallCommon, args []Val, st *State, reach string) Val {
		fc := fr.fc
		if fc.c == nil || fc.c.Opts["go-sequential"] == "" {
			fc.unsupported("errgroup.Group.Go outside the fork/join model in %s", fr.fn.Name())
			return nil
		}
		g, ok := refArg(args, 0)
		cl, isCl := args[1].(*Closure)
		if !ok || !isCl {
			fc.unsupported("errgroup.Group.Go with an unknown function value in %s", fr.fn.Name())
			fr.havocAll(st)
			return nil
		}
		fr.safety("nil", not(eq(g.S, "0")), reach, in.Pos(), "nil *errgroup.Group")
		res := fr.staticCall(cl.Fn, cl.Bindings, in, &ssa.CallCommon{Value: c.Args[1]}, nil, st, reach)
		e, isT := res.(Term)
		if !isT {
			e = fc.fresh("eg_result", SAny)
		}
		a := egArr(fc, st)
		cur := sel(a.S, g.S)
		fc.heapSet(st, "EG$err", Term{store(a.S, g.S, fmt.Sprintf("(ite (= %s anil) %s %s)", cur, e.S, cur)), a.Sort})
		return nil
	}
	libModels["golang.org/x/sync/errgroup.(*Group).Wait"] = func(fr *frame, in ssa.Instruction, c *ssa.CallCommon, args []Val, st *State, reach string) Val {
		fc := fr.fc
		g, ok := refArg(args, 0)
		if !ok {
			return fc.fresh("eg_wait", SAny)
		}
		return fc.define("eg_wait", Term{sel(egArr(fc, st).S, g.S), SAny})
	}
	libTouches["golang.org/x/sync/errgroup.WithContext"] = []string{"EG$err", "Alloc"}
	libTouches["golang.org/x/sync/errgroup.(*Group).Wait"] = nil
	libModels["golang.org/x/sync/semaphore.NewWeighted"] = func(fr *frame, in ssa.Instruction, c *ssa.CallCommon, args []Val, st *State, reach string) Val {
		return fr.fc.newRef(st, "semaphore")
	}
	libModels["golang.org/x/sync/semaphore.(*Weighted).Acquire"] = func(fr *frame, in ssa.Instruction, c *ssa.CallCommon, args []Val, st *State, reach string) Val {
		return maybeErr(fr.fc, fr.fc.fresh("sem_ok", SBool))
	}
	libModels["golang.org/x/sync/semaphore.(*Weighted).Release"] = func(fr *frame, in ssa.Instruction, c *ssa.CallCommon, args []Val, st *State, reach string) Val {
		return nil
	}
	libPure["runtime.GOMAXPROCS"] = true
}
