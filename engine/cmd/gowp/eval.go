package main

import (
	"fmt"
	"go/types"
	"regexp"
	"sort"
	"strconv"
	"strings"

	"golang.org/x/tools/go/ssa"
)

// Env evaluates contract expressions to SMT terms in a symbolic state.
type Env struct {
	allocArg bool // evaluating the argument of allocated(...)
	fc      *FnCtx
	pkg     string
	vars    map[string]CVal
	st      *State
	old     *State
	lookup  func(name string) (CVal, bool)
	lookupAddr func(name string) (CVal, bool) // addr(name): the cell of an address-taken local variable
	fr      *frame
	bound   map[string]CVal
	inOld   bool
	entry   *State // state at loop entry (for atentry(e) in loop invariants)
	inEntry bool
}

func (fc *FnCtx) contractEnv(c *FuncContract, fn *ssa.Function, args []Val, st, old *State) *Env {
	env := &Env{fc: fc, vars: map[string]CVal{}, st: st, old: old, bound: map[string]CVal{}}
	if c != nil {
		env.pkg = c.Pkg
	} else if fn != nil && fn.Pkg != nil {
		env.pkg = fn.Pkg.Pkg.Path()
	}
	if fn != nil && args == nil {
		for k, v := range fc.params {
			env.vars[k] = v
		}
	}
	return env
}

func (env *Env) bindResults(fn *ssa.Function, vals []Val, resVals []ssa.Value, fr *frame) {
	sig := fn.Signature
	for i := 0; i < sig.Results().Len() && i < len(vals); i++ {
		t, ok := vals[i].(Term)
		if !ok {
			if cl, isCl := vals[i].(*Closure); isCl {
				t = Term{strconv.Itoa(env.fc.e.funcTag(fnKey(cl.Fn))), SInt}
			} else if _, isPE := vals[i].(*PtrSliceElem); isPE && fr != nil && i < len(resVals) {
				t = fr.term(resVals[i])
			} else if va, isVA := vals[i].(*VarArgSlice); isVA {
				lit, ok := env.fc.sliceLiteral(va, sig.Results().At(i).Type())
				if !ok {
					continue
				}
				t = lit
			} else {
				continue
			}
		}
		rt := sig.Results().At(i).Type()
		if i < len(resVals) && isMapType(rt) {
			rt = withReg(rt, env.fc.e.regionOf(resVals[i]))
		}
		cv := CVal{t, rt}
		env.vars["result"+strconv.Itoa(i)] = cv
		if n := sig.Results().At(i).Name(); n != "" && n != "_" {
			env.vars[n] = cv
		}
		if sig.Results().Len() == 1 {
			env.vars["result"] = cv
		}
	}
}

func (env *Env) evalBool(e Expr) (Term, error) {
	cv, err := env.eval(e)
	if err != nil {
		return Term{}, err
	}
	if cv.T.Sort != SBool {
		return Term{}, fmt.Errorf("expression %s is not boolean (sort %s)", e, cv.T.Sort)
	}
	return cv.T, nil
}

func (env *Env) state() *State {
	if env.inOld {
		return env.old
	}
	if env.inEntry && env.entry != nil {
		return env.entry
	}
	return env.st
}

func (env *Env) eval(e Expr) (CVal, error) {
	fc := env.fc
	switch x := e.(type) {
	case *ELit:
		switch x.Kind {
		case "int":
			return CVal{Term{x.Val, SInt}, types.Typ[types.Int]}, nil
		case "string":
			return CVal{Term{smtString(x.Val), SString}, types.Typ[types.String]}, nil
		case "bool":
			return CVal{Term{x.Val, SBool}, types.Typ[types.Bool]}, nil
		case "nil":
			return CVal{Term{"nil", "NIL"}, nil}, nil
		}
	case *EIdent:
		if v, ok := env.bound[x.Name]; ok {
			return v, nil
		}
		if v, ok := env.vars[x.Name]; ok {
			return v, nil
		}
		if env.lookup != nil {
			if v, ok := env.lookup(x.Name); ok {
				return v, nil
			}
		}
		if srtName, ok := fc.e.specs.GhostVars[x.Name]; ok {
			gt, srt, err := fc.e.resolveType(srtName, env.pkg)
			if err != nil {
				return CVal{}, err
			}
			return CVal{fc.heapGet(env.state(), "GV"+x.Name, srt), gt}, nil
		}
		// package-level constant
		if p := fc.e.pkgs[env.pkg]; p != nil && p.Types != nil {
			if obj := p.Types.Scope().Lookup(x.Name); obj != nil {
				if c, ok := obj.(*types.Const); ok {
					ct := fc.constTerm(ssa.NewConst(c.Val(), c.Type()))
					return CVal{ct, c.Type()}, nil
				}
				if f, ok := obj.(*types.Func); ok {
					return CVal{Term{strconv.Itoa(fc.e.funcTag(env.pkg + "." + f.Name())), SInt}, f.Type()}, nil
				}
				if v, ok := obj.(*types.Var); ok {
					if sp := fc.e.ssaPkgs[env.pkg]; sp != nil {
						if g, ok := sp.Members[x.Name].(*ssa.Global); ok {
							if fc.isStable(g) {
								return CVal{fc.globalVal(g), v.Type()}, nil
							}
							ref := fc.globalRef(g)
							srt := fc.e.sortOf(v.Type())
							a := fc.heapGet(env.state(), derefArrName(v.Type()), arr(SInt, srt))
							return CVal{Term{sel(a.S, ref.S), srt}, v.Type()}, nil
						}
					}
				}
			}
		}
		// zero-ary spec function / constant
		if sf, ok := fc.e.specs.Spec[x.Name]; ok && len(sf.Params) == 0 {
			return env.callSpec(sf, nil)
		}
		return CVal{}, fmt.Errorf("unknown identifier %q", x.Name)
	case *ESel:
		// pkg.Const
		if id, ok := x.X.(*EIdent); ok && !x.Ghost {
			if _, isVar := env.vars[id.Name]; !isVar {
				if _, isB := env.bound[id.Name]; !isB {
					if cands := fc.e.byName[id.Name]; len(cands) > 0 {
						for _, p := range cands {
							if p.Types == nil {
								continue
							}
							if obj := p.Types.Scope().Lookup(x.Name); obj != nil {
								if c, ok := obj.(*types.Const); ok {
									return CVal{fc.constTerm(ssa.NewConst(c.Val(), c.Type())), c.Type()}, nil
								}
							}
						}
					}
				}
			}
		}
		base, err := env.eval(x.X)
		if err != nil {
			return CVal{}, err
		}
		if x.Ghost {
			return env.ghostSel(base, x.Name)
		}
		return env.fieldSel(base, x.Name)
	case *EIndex:
		// channel log: ch.#out[i]
		if s, ok := x.X.(*ESel); ok && s.Ghost && s.Name == "out" {
			ch, err := env.eval(s.X)
			if err != nil {
				return CVal{}, err
			}
			idx, err := env.eval(x.I)
			if err != nil {
				return CVal{}, err
			}
			ct, ok := ch.GoT.Underlying().(*types.Chan)
			if !ok {
				return CVal{}, fmt.Errorf("#out on non-channel %s", s.X)
			}
			es := fc.e.sortOf(ct.Elem())
			co := fc.heapGet(env.state(), "CO$"+sanitize(es), arr(SInt, arr(SInt, es)))
			return CVal{Term{sel(sel(co.S, ch.T.S), idx.T.S), es}, ct.Elem()}, nil
		}
		base, err := env.eval(x.X)
		if err != nil {
			return CVal{}, err
		}
		idx, err := env.eval(x.I)
		if err != nil {
			return CVal{}, err
		}
		return env.index(base, idx)
	case *ESlice:
		base, err := env.eval(x.X)
		if err != nil {
			return CVal{}, err
		}
		lo := CVal{Term{"0", SInt}, nil}
		if x.Lo != nil {
			if lo, err = env.eval(x.Lo); err != nil {
				return CVal{}, err
			}
		}
		if base.T.Sort == SString {
			hi := Term{"(str.len " + base.T.S + ")", SInt}
			if x.Hi != nil {
				h, err := env.eval(x.Hi)
				if err != nil {
					return CVal{}, err
				}
				hi = h.T
			}
			return CVal{Term{fmt.Sprintf("(str.substr %s %s (- %s %s))", base.T.S, lo.T.S, hi.S, lo.T.S), SString}, base.GoT}, nil
		}
		if isSlc(base.T.Sort) {
			hi := Term{"(slen " + base.T.S + ")", SInt}
			if x.Hi != nil {
				h, err := env.eval(x.Hi)
				if err != nil {
					return CVal{}, err
				}
				hi = h.T
			}
			return CVal{fc.slcSub(base.T, lo.T.S, hi.S), base.GoT}, nil
		}
		return CVal{}, fmt.Errorf("slice of sort %s", base.T.Sort)
	case *EUn:
		v, err := env.eval(x.X)
		if err != nil {
			return CVal{}, err
		}
		if x.Op == "!" {
			return CVal{Term{not(v.T.S), SBool}, v.GoT}, nil
		}
		return CVal{Term{"(- " + v.T.S + ")", SInt}, v.GoT}, nil
	case *EBin:
		return env.binary(x)
	case *EQuant:
		saved := map[string]CVal{}
		var binders []string
		var typeFacts []string
		for _, qv := range x.Vars {
			gt, srt, err := fc.e.resolveType(qv.Type, env.pkg)
			if err != nil {
				return CVal{}, err
			}
			if old, ok := env.bound[qv.Name]; ok {
				saved[qv.Name] = old
			}
			// every binder gets a fresh name: macro arguments may mention variables bound further out
			fc.nquant++
			nm := fmt.Sprintf("q$%s_%d", qv.Name, fc.nquant)
			env.bound[qv.Name] = CVal{Term{nm, srt}, gt}
			binders = append(binders, fmt.Sprintf("(%s %s)", nm, srt))
			_ = typeFacts
		}
		body, err := env.evalBool(x.Body)
		var pats string
		if err == nil {
			for _, grp := range x.Triggers {
				var ts []string
				for _, te := range grp {
					tv, terr := env.eval(te)
					if terr != nil {
						err = terr
						break
					}
					ts = append(ts, tv.T.S)
				}
				pats += " :pattern (" + strings.Join(ts, " ") + ")"
			}
		}
		for _, qv := range x.Vars {
			delete(env.bound, qv.Name)
			if o, ok := saved[qv.Name]; ok {
				env.bound[qv.Name] = o
			}
		}
		if err != nil {
			return CVal{}, err
		}
		q := "exists"
		if x.Forall {
			q = "forall"
		}
		if pats != "" {
			return CVal{Term{fmt.Sprintf("(%s (%s) (! %s%s))", q, strings.Join(binders, " "), body.S, pats), SBool}, nil}, nil
		}
		return CVal{Term{fmt.Sprintf("(%s (%s) %s)", q, strings.Join(binders, " "), body.S), SBool}, nil}, nil
	case *ECall:
		return env.call(x)
	}
	return CVal{}, fmt.Errorf("cannot evaluate %s", e)
}

func (env *Env) coerceNil(a, b *CVal) {
	fix := func(n, o *CVal) {
		if n.T.Sort != "NIL" {
			return
		}
		switch o.T.Sort {
		case SAny:
			n.T = Term{"anil", SAny}
		case SInt:
			n.T = Term{"0", SInt}
		default:
			if isSlc(o.T.Sort) {
				n.T = env.fc.e.zero(o.T.Sort, nil)
			} else {
				n.T = Term{"0", SInt}
			}
		}
	}
	fix(a, b)
	fix(b, a)
}

func (env *Env) binary(x *EBin) (CVal, error) {
	// short-circuit style: all total in SMT
	l, err := env.eval(x.L)
	if err != nil {
		return CVal{}, err
	}
	r, err := env.eval(x.R)
	if err != nil {
		return CVal{}, err
	}
	env.coerceNil(&l, &r)
	b := func(s string) (CVal, error) { return CVal{Term{s, SBool}, nil}, nil }
	switch x.Op {
	case "&&":
		return b(and(l.T.S, r.T.S))
	case "||":
		return b(or(l.T.S, r.T.S))
	case "==>":
		return b("(=> " + l.T.S + " " + r.T.S + ")")
	case "<==>":
		return b(eq(l.T.S, r.T.S))
	case "==", "!=":
		if l.T.Sort != r.T.Sort {
			if l.T.Sort == SAny && r.GoT != nil {
				r.T = env.fc.e.box(r.T, r.GoT)
			} else if r.T.Sort == SAny && l.GoT != nil {
				l.T = env.fc.e.box(l.T, l.GoT)
			} else {
				return CVal{}, fmt.Errorf("sort mismatch in %s: %s vs %s", x, l.T.Sort, r.T.Sort)
			}
		}
		if x.Op == "==" {
			return b(eq(l.T.S, r.T.S))
		}
		return b(not(eq(l.T.S, r.T.S)))
	case "<", "<=", ">", ">=":
		if l.T.Sort == SString {
			switch x.Op {
			case "<":
				return b(env.fc.strLess(l.T.S, r.T.S))
			case "<=":
				return b(not(env.fc.strLess(r.T.S, l.T.S)))
			case ">":
				return b(env.fc.strLess(r.T.S, l.T.S))
			default:
				return b(not(env.fc.strLess(l.T.S, r.T.S)))
			}
		}
		if l.T.Sort != SInt || r.T.Sort != SInt {
			return CVal{}, fmt.Errorf("comparison %s on sorts %s,%s", x.Op, l.T.Sort, r.T.Sort)
		}
		return b("(" + x.Op + " " + l.T.S + " " + r.T.S + ")")
	case "+", "-", "*":
		if l.T.Sort == SString && x.Op == "+" {
			return CVal{Term{"(str.++ " + l.T.S + " " + r.T.S + ")", SString}, l.GoT}, nil
		}
		if x.Op == "*" {
			return CVal{Term{env.fc.mulTerm(l.T.S, r.T.S), SInt}, l.GoT}, nil
		}
		return CVal{Term{"(" + x.Op + " " + l.T.S + " " + r.T.S + ")", SInt}, l.GoT}, nil
	case "/":
		return CVal{Term{"(div " + l.T.S + " " + r.T.S + ")", SInt}, l.GoT}, nil
	case "%":
		return CVal{Term{"(mod " + l.T.S + " " + r.T.S + ")", SInt}, l.GoT}, nil
	case "++":
		return CVal{Term{"(str.++ " + l.T.S + " " + r.T.S + ")", SString}, l.GoT}, nil
	}
	return CVal{}, fmt.Errorf("operator %s", x.Op)
}

func (env *Env) fieldSel(base CVal, name string) (CVal, error) {
	fc := env.fc
	if base.GoT == nil {
		return CVal{}, fmt.Errorf("field %s of a value without Go type", name)
	}
	t := base.GoT
	if p, ok := t.Underlying().(*types.Pointer); ok {
		stT := p.Elem()
		st, ok := stT.Underlying().(*types.Struct)
		if !ok {
			return CVal{}, fmt.Errorf("field %s of pointer to non-struct %s", name, shortType(stT))
		}
		for i := 0; i < st.NumFields(); i++ {
			f := st.Field(i)
			if f.Name() == name {
				srt := fc.e.sortOf(f.Type())
				a := fc.heapGet(env.state(), fieldArrName(stT, name), arr(SInt, srt))
				if len(fc.e.specs.FieldInvs) > 0 && !strings.Contains(base.T.S, "q$") {
					fc.assumeFieldInv(env.state(), base.T, stT, name)
				}
				reg := ""
				if isMapType(f.Type()) {
					reg = fc.e.regionOfField(stT, f)
				}
				if _, isPtr := f.Type().Underlying().(*types.Pointer); isPtr && srt == SInt && env.allocArg && !strings.Contains(base.T.S, "q$") {
					// heap well-formedness, as for a load in the body: a stored reference is nil or allocated
					// (stated only where the contract asks: inside the argument of allocated(...))
					fc.assumeAllocatedFrom(env.state(), Term{sel(a.S, base.T.S), srt}, a)
				}
				return CVal{Term{sel(a.S, base.T.S), srt}, withReg(f.Type(), reg)}, nil
			}
		}
		return CVal{}, fmt.Errorf("no field %s in %s", name, shortType(stT))
	}
	if st, ok := t.Underlying().(*types.Struct); ok {
		srt := fc.e.sortOf(t)
		for i := 0; i < st.NumFields(); i++ {
			f := st.Field(i)
			if f.Name() == name {
				return CVal{Term{fmt.Sprintf("(%s$%s %s)", srt, name, base.T.S), fc.e.sortOf(f.Type())}, f.Type()}, nil
			}
		}
	}
	return CVal{}, fmt.Errorf("field %s of %s", name, shortType(t))
}

func (env *Env) ghostSel(base CVal, name string) (CVal, error) {
	fc := env.fc
	if base.GoT != nil {
		if _, ok := base.GoT.Underlying().(*types.Chan); ok {
			switch name {
			case "len":
				a := fc.heapGet(env.state(), "CL", arr(SInt, SInt))
				return CVal{Term{sel(a.S, base.T.S), SInt}, types.Typ[types.Int]}, nil
			case "closed":
				a := fc.heapGet(env.state(), "CC", arr(SInt, SInt))
				return CVal{Term{sel(a.S, base.T.S), SInt}, types.Typ[types.Int]}, nil
			case "rcvd": // number of elements of the log already received (fork/join model only)
				a := fc.heapGet(env.state(), "CR", arr(SInt, SInt))
				return CVal{Term{sel(a.S, base.T.S), SInt}, types.Typ[types.Int]}, nil
			}
			return CVal{}, fmt.Errorf("channel ghost .#%s", name)
		}
		if p, ok := base.GoT.Underlying().(*types.Pointer); ok {
			key := typeKey(p.Elem()) + ".#" + name
			if g, ok := fc.e.specs.Ghost[key]; ok {
				gt, srt, err := fc.e.resolveType(g.Type, env.pkg)
				if err != nil {
					return CVal{}, err
				}
				a := fc.heapGet(env.state(), "G$"+sanitize(shortType(p.Elem()))+"$"+name, arr(SInt, srt))
				return CVal{Term{sel(a.S, base.T.S), srt}, gt}, nil
			}
			// lock mode of a mutex field: x.#lock_<field>
			if strings.HasPrefix(name, "lock_") {
				a := fc.heapGet(env.state(), "LK$"+sanitize(shortType(p.Elem()))+"$"+name[5:], arr(SInt, SInt))
				return CVal{Term{sel(a.S, base.T.S), SInt}, types.Typ[types.Int]}, nil
			}
			return CVal{}, fmt.Errorf("undeclared ghost field %s", key)
		}
	}
	return CVal{}, fmt.Errorf("ghost field .#%s on %v", name, base.GoT)
}

func (env *Env) index(base, idx CVal) (CVal, error) {
	fc := env.fc
	if base.GoT != nil {
		if mt, ok := base.GoT.Underlying().(*types.Map); ok {
			_, vn, ks, vs := fc.mapArrs(mt, regOrDefault(fc.e, base))
			val := fc.heapGet(env.state(), vn, arr(SInt, arr(ks, vs)))
			er := ""
			if isMapType(mt.Elem()) {
				er = fc.e.regionElem(regOrDefault(fc.e, base))
			}
			return CVal{Term{sel(sel(val.S, base.T.S), idx.T.S), vs}, withReg(mt.Elem(), er)}, nil
		}
	}
	switch {
	case base.T.Sort == SString:
		return CVal{Term{fmt.Sprintf("(str.to_code (str.at %s %s))", base.T.S, idx.T.S), SInt}, types.Typ[types.Uint8]}, nil
	case isSlc(base.T.Sort):
		var et types.Type
		if base.GoT != nil {
			if s, ok := base.GoT.Underlying().(*types.Slice); ok {
				et = s.Elem()
			}
		}
		return CVal{fc.slcAt(base.T, idx.T.S), et}, nil
	case isArr(base.T.Sort):
		return CVal{Term{sel(base.T.S, idx.T.S), sortArgs(base.T.Sort)[1]}, nil}, nil
	}
	return CVal{}, fmt.Errorf("index into sort %s", base.T.Sort)
}

func (env *Env) call(x *ECall) (CVal, error) {
	fc := env.fc
	evalArgs := func() ([]CVal, error) {
		var out []CVal
		for _, a := range x.Args {
			v, err := env.eval(a)
			if err != nil {
				return nil, err
			}
			out = append(out, v)
		}
		return out, nil
	}
	switch x.Fn {
	case "old":
		if len(x.Args) != 1 {
			return CVal{}, fmt.Errorf("old takes one argument")
		}
		saved := env.inOld
		env.inOld = true
		v, err := env.eval(x.Args[0])
		env.inOld = saved
		return v, err
	case "atentry":
		if len(x.Args) != 1 {
			return CVal{}, fmt.Errorf("atentry takes one argument")
		}
		if env.entry == nil {
			return CVal{}, fmt.Errorf("atentry outside a loop invariant")
		}
		saved := env.inEntry
		env.inEntry = true
		v, err := env.eval(x.Args[0])
		env.inEntry = saved
		return v, err
	case "len":
		args, err := evalArgs()
		if err != nil {
			return CVal{}, err
		}
		a := args[0]
		switch {
		case a.T.Sort == SString:
			return CVal{Term{"(str.len " + a.T.S + ")", SInt}, types.Typ[types.Int]}, nil
		case isSlc(a.T.Sort):
			return CVal{Term{"(slen " + a.T.S + ")", SInt}, types.Typ[types.Int]}, nil
		}
		if a.GoT != nil {
			if mt, ok := a.GoT.Underlying().(*types.Map); ok {
				// number of keys: the same uninterpreted cardinality the builtin len uses
				dn, _, ks, _ := fc.mapArrs(mt, regOrDefault(fc.e, a))
				dom := fc.heapGet(env.state(), dn, arr(SInt, arr(ks, SBool)))
				fname := "card$" + sanitize(ks)
				fc.declareFun(fname, []string{arr(ks, SBool)}, SInt)
				return CVal{Term{"(" + fname + " " + sel(dom.S, a.T.S) + ")", SInt}, types.Typ[types.Int]}, nil
			}
		}
		return CVal{}, fmt.Errorf("len of sort %s", a.T.Sort)
	case "ite":
		args, err := evalArgs()
		if err != nil {
			return CVal{}, err
		}
		env.coerceNil(&args[1], &args[2])
		return CVal{Term{fmt.Sprintf("(ite %s %s %s)", args[0].T.S, args[1].T.S, args[2].T.S), args[1].T.Sort}, args[1].GoT}, nil
	case "has": // has(m, k): key in map domain
		args, err := evalArgs()
		if err != nil {
			return CVal{}, err
		}
		mt, ok := args[0].GoT.Underlying().(*types.Map)
		if !ok {
			return CVal{}, fmt.Errorf("has on non-map")
		}
		dn, _, ks, _ := fc.mapArrs(mt, regOrDefault(fc.e, args[0]))
		dom := fc.heapGet(env.state(), dn, arr(SInt, arr(ks, SBool)))
		return CVal{Term{sel(sel(dom.S, args[0].T.S), args[1].T.S), SBool}, nil}, nil
	case "dom": // dom(m): the domain as a set
		args, err := evalArgs()
		if err != nil {
			return CVal{}, err
		}
		mt, ok := args[0].GoT.Underlying().(*types.Map)
		if !ok {
			return CVal{}, fmt.Errorf("dom on non-map")
		}
		dn, _, ks, _ := fc.mapArrs(mt, regOrDefault(fc.e, args[0]))
		dom := fc.heapGet(env.state(), dn, arr(SInt, arr(ks, SBool)))
		return CVal{Term{sel(dom.S, args[0].T.S), arr(ks, SBool)}, nil}, nil
	case "vals": // vals(m): the value array
		args, err := evalArgs()
		if err != nil {
			return CVal{}, err
		}
		mt, ok := args[0].GoT.Underlying().(*types.Map)
		if !ok {
			return CVal{}, fmt.Errorf("vals on non-map")
		}
		_, vn, ks, vs := fc.mapArrs(mt, regOrDefault(fc.e, args[0]))
		val := fc.heapGet(env.state(), vn, arr(SInt, arr(ks, vs)))
		return CVal{Term{sel(val.S, args[0].T.S), arr(ks, vs)}, nil}, nil
	case "deref":
		args, err := evalArgs()
		if err != nil {
			return CVal{}, err
		}
		elemT := ptrElem(args[0].GoT)
		if elemT == nil {
			return CVal{}, fmt.Errorf("deref of non-pointer")
		}
		srt := fc.e.sortOf(elemT)
		if _, ok := elemT.Underlying().(*types.Struct); ok && !isTimeType(elemT) {
			si := fc.e.structs[typeKey(elemT)]
			fs := ""
			for i, f := range si.fields {
				fa := fc.heapGet(env.state(), fieldArrName(elemT, f.Name()), arr(SInt, si.sorts[i]))
				fs += " " + sel(fa.S, args[0].T.S)
			}
			if len(si.fields) == 0 {
				fs = " 0"
			}
			return CVal{Term{"(mk" + srt + fs + ")", srt}, elemT}, nil
		}
		a := fc.heapGet(env.state(), derefArrName(elemT), arr(SInt, srt))
		return CVal{Term{sel(a.S, args[0].T.S), srt}, elemT}, nil
	case "parent": // parent(m): the map into which map m was (first) stored as a value; 0 if none
		args, err := evalArgs()
		if err != nil {
			return CVal{}, err
		}
		mp := fc.heapGet(env.state(), "MP", arr(SInt, SInt))
		return CVal{Term{sel(mp.S, args[0].T.S), SInt}, nil}, nil
	case "pkey": // pkey(m): the key under which map m was stored into parent(m)
		args, err := evalArgs()
		if err != nil {
			return CVal{}, err
		}
		mpk := fc.heapGet(env.state(), "MPK$String", arr(SInt, SString))
		return CVal{Term{sel(mpk.S, args[0].T.S), SString}, nil}, nil
	case "fresh": // fresh(r): not allocated in the old state, non-nil
		args, err := evalArgs()
		if err != nil {
			return CVal{}, err
		}
		al := fc.heapGet(env.old, "Alloc", SAlloc)
		cur := fc.heapGet(env.state(), "Alloc", SAlloc)
		if cur.S == al.S {
			return CVal{Term{fmt.Sprintf("(and (> %s 0) (not %s))", args[0].T.S, allocd(al.S, args[0].T.S)), SBool}, nil}, nil
		}
		return CVal{Term{fmt.Sprintf("(and (> %s 0) (not %s) %s)", args[0].T.S, allocd(al.S, args[0].T.S), allocd(cur.S, args[0].T.S)), SBool}, nil}, nil
	case "allocated":
		env.allocArg = true
		args, err := evalArgs()
		env.allocArg = false
		if err != nil {
			return CVal{}, err
		}
		al := fc.heapGet(env.state(), "Alloc", SAlloc)
		return CVal{Term{fmt.Sprintf("(and (> %s 0) %s)", args[0].T.S, allocd(al.S, args[0].T.S)), SBool}, nil}, nil
	case "strof": // strof(x, "T"): the text of x's String method, T being its static type
		if len(x.Args) != 2 {
			return CVal{}, fmt.Errorf("strof(x, \"T\")")
		}
		v, err := env.eval(x.Args[0])
		if err != nil {
			return CVal{}, err
		}
		lit, ok := x.Args[1].(*ELit)
		if !ok {
			return CVal{}, fmt.Errorf("strof(x, \"T\")")
		}
		gt, _, err := fc.e.resolveType(lit.Val, env.pkg)
		if err != nil || gt == nil {
			return CVal{}, fmt.Errorf("strof: %v", err)
		}
		name := "strof$" + sanitize(shortType(gt))
		fc.declareFun(name, []string{fc.e.sortOf(gt)}, SString)
		return CVal{Term{"(" + name + " " + v.T.S + ")", SString}, nil}, nil
	case "typetag": // typetag("T"): the tag interface values of dynamic type T carry
		lit, ok := x.Args[0].(*ELit)
		if !ok {
			return CVal{}, fmt.Errorf("typetag(\"T\")")
		}
		gt, _, err := fc.e.resolveType(lit.Val, env.pkg)
		if err != nil || gt == nil {
			return CVal{}, fmt.Errorf("typetag: %v", err)
		}
		return CVal{Term{strconv.Itoa(fc.e.typeTag(gt)), SInt}, nil}, nil
	case "distinct":
		args, err := evalArgs()
		if err != nil {
			return CVal{}, err
		}
		var as []string
		for _, a := range args {
			as = append(as, a.T.S)
		}
		return CVal{Term{"(distinct " + strings.Join(as, " ") + ")", SBool}, nil}, nil
	case "isnil":
		args, err := evalArgs()
		if err != nil {
			return CVal{}, err
		}
		if args[0].T.Sort == SAny {
			return CVal{Term{eq(args[0].T.S, "anil"), SBool}, nil}, nil
		}
		return CVal{Term{eq(args[0].T.S, "0"), SBool}, nil}, nil
	case "fn": // fn(name): tag of a function in the current package
		if id, ok := x.Args[0].(*EIdent); ok {
			return CVal{Term{strconv.Itoa(fc.e.funcTag(env.pkg + "." + id.Name)), SInt}, nil}, nil
		}
		if lit, ok := x.Args[0].(*ELit); ok {
			// fn("(*T).M$1"): methods and closures, by the name their contract is keyed with
			if ct := fc.e.resolveFuncKey(lit.Val, env.pkg); ct != nil {
				return CVal{Term{strconv.Itoa(fc.e.funcTag(ct.Key)), SInt}, nil}, nil
			}
			return CVal{}, fmt.Errorf("fn(%q): no function under contract with that name", lit.Val)
		}
	case "typeis": // typeis(x, "T"): interface value x has dynamic type T
		if len(x.Args) != 2 {
			return CVal{}, fmt.Errorf("typeis(x, \"T\")")
		}
		v, err := env.eval(x.Args[0])
		if err != nil {
			return CVal{}, err
		}
		lit, ok := x.Args[1].(*ELit)
		if !ok || v.T.Sort != SAny {
			return CVal{}, fmt.Errorf("typeis(x, \"T\") needs an interface value and a type name")
		}
		gt, _, err := fc.e.resolveType(lit.Val, env.pkg)
		if err != nil || gt == nil {
			return CVal{}, fmt.Errorf("typeis: %v", err)
		}
		return CVal{fc.e.hasType(v.T, gt), nil}, nil
	case "box": // box(x, "T"): x as an interface value of dynamic type T
		if len(x.Args) != 2 {
			return CVal{}, fmt.Errorf("box(x, \"T\")")
		}
		v, err := env.eval(x.Args[0])
		if err != nil {
			return CVal{}, err
		}
		lit, ok := x.Args[1].(*ELit)
		if !ok {
			return CVal{}, fmt.Errorf("box(x, \"T\")")
		}
		gt, _, err := fc.e.resolveType(lit.Val, env.pkg)
		if err != nil || gt == nil {
			return CVal{}, fmt.Errorf("box: %v", err)
		}
		return CVal{fc.e.box(v.T, gt), nil}, nil
	case "unbox": // unbox(x, "T")
		if len(x.Args) != 2 {
			return CVal{}, fmt.Errorf("unbox(x, \"T\")")
		}
		v, err := env.eval(x.Args[0])
		if err != nil {
			return CVal{}, err
		}
		lit, ok := x.Args[1].(*ELit)
		if !ok || v.T.Sort != SAny {
			return CVal{}, fmt.Errorf("unbox(x, \"T\") needs an interface value and a type name")
		}
		gt, _, err := fc.e.resolveType(lit.Val, env.pkg)
		if err != nil || gt == nil {
			return CVal{}, fmt.Errorf("unbox: %v", err)
		}
		return CVal{fc.e.unbox(v.T, gt), gt}, nil
	case "call": // call("f", args...): the result of heap function f in the current state
		if len(x.Args) < 1 {
			return CVal{}, fmt.Errorf("call(\"f\", args...)")
		}
		lit, ok := x.Args[0].(*ELit)
		if !ok || lit.Kind != "string" {
			return CVal{}, fmt.Errorf("call(\"f\", args...): the function is named by a string literal")
		}
		fname, resIdx := lit.Val, 0
		if i := strings.LastIndex(fname, "#"); i >= 0 {
			if n, err := strconv.Atoi(fname[i+1:]); err == nil {
				fname, resIdx = fname[:i], n
			}
		}
		ct := fc.e.resolveFuncKey(fname, env.pkg)
		if ct == nil {
			return CVal{}, fmt.Errorf("call(%q): no (unique) function under contract with that name", lit.Val)
		}
		var args []CVal
		for _, a := range x.Args[1:] {
			v, err := env.eval(a)
			if err != nil {
				return CVal{}, err
			}
			args = append(args, v)
		}
		t, err := fc.heapFunTerm(ct, resIdx, args, env.state())
		if err != nil {
			return CVal{}, err
		}
		var rt types.Type
		if _, _, res, err := fc.e.hfSig(ct); err == nil && resIdx < res.Len() && t.Sort != SBool {
			rt = res.At(resIdx).Type()
		}
		return CVal{t, rt}, nil
	case "addr": // addr(v): pointer to the cell of the (captured / address-taken) local variable v
		if id, ok := x.Args[0].(*EIdent); ok && env.lookupAddr != nil {
			if v, ok := env.lookupAddr(id.Name); ok {
				return v, nil
			}
		}
		return CVal{}, fmt.Errorf("addr(%s): not an address-taken local variable visible here", x.Args[0])
	case "perm": // perm(a, b): slice b is a permutation of slice a
		args, err := evalArgs()
		if err != nil {
			return CVal{}, err
		}
		if len(args) != 2 || !isSlc(args[0].T.Sort) || args[0].T.Sort != args[1].T.Sort {
			return CVal{}, fmt.Errorf("perm(a, b) needs two slices of the same type")
		}
		return CVal{Term{fc.permTerm(args[0].T, args[1].T), SBool}, nil}, nil
	case "fmtany": // fmtany(v, "%verb"): the text fmt produces for the boxed value v under one verb
		if len(x.Args) != 2 {
			return CVal{}, fmt.Errorf("fmtany(v, \"%%verb\")")
		}
		v, err := env.eval(x.Args[0])
		if err != nil {
			return CVal{}, err
		}
		lit, ok := x.Args[1].(*ELit)
		if !ok || len(lit.Val) < 2 || lit.Val[0] != '%' || v.T.Sort != SAny {
			return CVal{}, fmt.Errorf("fmtany(v, \"%%verb\") needs an interface value and a constant verb")
		}
		verb := lit.Val[len(lit.Val)-1]
		spec := lit.Val[1 : len(lit.Val)-1]
		if t, ok := fc.fmtPadded(v.T, verb, spec); ok {
			return CVal{t, types.Typ[types.String]}, nil
		}
		if verb == 'v' && spec == "" {
			// the same dispatch on the dynamic type as the model of fmt.Sprintf("%v", <interface value>)
			if t, ok := fc.fmtTyped(v.T, types.NewInterfaceType(nil, nil), verb, spec); ok {
				return CVal{t, types.Typ[types.String]}, nil
			}
		}
		return CVal{fc.fmtArg(v.T, verb, spec), types.Typ[types.String]}, nil
	case "egerr": // egerr(g): the error recorded so far by the *errgroup.Group g (fork/join model)
		args, err := evalArgs()
		if err != nil {
			return CVal{}, err
		}
		if len(args) != 1 || args[0].T.Sort != SInt {
			return CVal{}, fmt.Errorf("egerr(g) needs a *errgroup.Group")
		}
		a := fc.heapGet(env.state(), "EG$err", arr(SInt, SAny))
		return CVal{Term{sel(a.S, args[0].T.S), SAny}, types.Universe.Lookup("error").Type()}, nil
	case "bufstr": // bufstr(b): the content of the *bytes.Buffer b
		args, err := evalArgs()
		if err != nil {
			return CVal{}, err
		}
		if len(args) != 1 || args[0].T.Sort != SInt {
			return CVal{}, fmt.Errorf("bufstr(b) needs a *bytes.Buffer")
		}
		a := fc.heapGet(env.state(), "BUF", arr(SInt, SString))
		return CVal{Term{sel(a.S, args[0].T.S), SString}, types.Typ[types.String]}, nil
	}
	switch x.Fn {
	case "startsWithSpace", "endsWithSpace":
		args, err := evalArgs()
		if err != nil {
			return CVal{}, err
		}
		re := "(re.++ ws$re re.all)"
		if x.Fn == "endsWithSpace" {
			re = "(re.++ re.all ws$re)"
		}
		return CVal{Term{"(str.in_re " + args[0].T.S + " " + re + ")", SBool}, nil}, nil
	case "smt_in_re_decimal", "smt_in_re_timestamp":
		args, err := evalArgs()
		if err != nil {
			return CVal{}, err
		}
		re := "(re.++ (re.opt (str.to_re \"-\")) (re.+ (re.range \"0\" \"9\")))"
		if x.Fn == "smt_in_re_timestamp" {
			re = "(re.+ (re.union (re.range \"0\" \"9\") (str.to_re \"T\") (str.to_re \":\") (str.to_re \".\") (str.to_re \"Z\") (str.to_re \"+\") (str.to_re \"-\")))"
		}
		return CVal{Term{"(str.in_re " + args[0].T.S + " " + re + ")", SBool}, nil}, nil
	}
	if sf, ok := fc.e.specs.Spec[x.Fn]; ok {
		args, err := evalArgs()
		if err != nil {
			return CVal{}, err
		}
		return env.callSpec(sf, args)
	}
	// SMT builtins: str.* etc. written as str_contains(a,b)
	if smtName, ok := smtBuiltins[x.Fn]; ok {
		args, err := evalArgs()
		if err != nil {
			return CVal{}, err
		}
		var as []string
		for _, a := range args {
			as = append(as, a.T.S)
		}
		if smtName.args != nil {
			fc.declareFun(smtName.name, smtName.args, smtName.sort)
		}
		return CVal{Term{"(" + smtName.name + " " + strings.Join(as, " ") + ")", smtName.sort}, nil}, nil
	}
	return CVal{}, fmt.Errorf("unknown function %s", x.Fn)
}

type smtB struct {
	name, sort string
	args       []string // non-nil: uninterpreted library symbol that must be declared
}

var smtBuiltins = map[string]smtB{
	"str_contains":  {"str.contains", SBool, nil},
	"str_prefixof":  {"str.prefixof", SBool, nil},
	"str_suffixof":  {"str.suffixof", SBool, nil},
	"str_indexof":   {"str.indexof", SInt, nil},
	"str_substr":    {"str.substr", SString, nil},
	"str_at":        {"str.at", SString, nil},
	"str_code":      {"str.to_code", SInt, nil},
	"str_from_code": {"str.from_code", SString, nil},
	"str_replace":   {"str.replace", SString, nil},
	"tinst":         {"tinst", SInt, nil},
	"tzone":         {"tzone", SInt, nil},
	"mktime":        {"mktime", STime, nil},
	"abs":           {"abs", SInt, nil},
	"atag":          {"atag", SInt, nil},
	// symbols of the library models (lib.go)
	"isLetter":  {"uni$letter", SBool, []string{SInt}},
	"isDigit":   {"uni$digit", SBool, []string{SInt}},
	"isSpace":   {"uni$space", SBool, []string{SInt}},
	"utf8rune":  {"utf8$rune", SInt, []string{SString}},
	"utf8width": {"utf8$width", SInt, []string{SString}},
	"foldcase":  {"str$fold", SString, []string{SString}},
	"lowercase": {"str$lower", SString, []string{SString}},
	"hexu":      {"uuid$hex", SString, []string{SString}},
	"trimspace": {"trim$", SString, []string{SString}},
	"unquote":   {"unquote$val", SString, []string{SString}},
	"unquoteOK": {"unquote$ok", SBool, []string{SString}},
	"quote":     {"quote$", SString, []string{SString}},
	"timeparse":   {"timeparse$val", STime, []string{SString, SString}},
	"timeparseOK": {"timeparse$ok", SBool, []string{SString, SString}},
	"parseint":     {"parseint$val", SInt, []string{SString}},
	"parseintOK":   {"parseint$ok", SBool, []string{SString}},
	"parsefloat":   {"parsefloat$val", SF64, []string{SString}},
	"parsefloatOK": {"parsefloat$ok", SBool, []string{SString}},
	"parsebool":    {"parsebool$val", SBool, []string{SString}},
	"parseboolOK":  {"parsebool$ok", SBool, []string{SString}},
	"itoa":      {"itoa$", SString, []string{SInt}},
	"fmtfloat":  {"fmtfloat$", SString, []string{SF64}},
	"fmtbytes":  {"fmtbytes$", SString, []string{SString}},
	"timefmt":   {"timefmt$", SString, []string{STime, SString}},
	"fmtref":    {"fmt$ref", SString, []string{SInt, SInt}},
	"sha16":       {"sha16$", SString, []string{SString}},
	"varintBytes": {"varint$bytes", SString, []string{SInt}},
	"le64Bytes":   {"le64$bytes", SString, []string{SInt}},
	"f64bits":     {"f64$bits", SInt, []string{SF64}},
	"f64add":      {"f64$add", SF64, []string{SF64, SF64}},
	"wrap64":      {"wrap64", SInt, []string{SInt}},
}

func (env *Env) callSpec(sf *SpecFunc, args []CVal) (CVal, error) {
	fc := env.fc
	if len(args) != len(sf.Params) {
		return CVal{}, fmt.Errorf("spec function %s: %d arguments, want %d", sf.Name, len(args), len(sf.Params))
	}
	rt, rs, err := fc.e.resolveType(sf.Result, specPkg(sf, env.pkg))
	if err != nil {
		return CVal{}, err
	}
	if sf.Opaque {
		if v, ok, err := env.callPred(sf, args); ok || err != nil {
			return v, err
		}
	}
	if sf.Macro {
		saved := env.bound
		nb := map[string]CVal{}
		for k, v := range saved {
			nb[k] = v
		}
		for i, p := range sf.Params {
			pt, _, err := fc.e.resolveType(p.Type, specPkg(sf, env.pkg))
			if err != nil {
				return CVal{}, err
			}
			a := args[i]
			if a.GoT == nil {
				a.GoT = pt
			}
			if a.T.Sort == "NIL" {
				a.T = Term{"0", SInt}
			}
			nb[p.Name] = a
		}
		env.bound = nb
		savedPkg := env.pkg
		env.pkg = specPkg(sf, env.pkg)
		v, err := env.eval(sf.Body)
		env.pkg = savedPkg
		env.bound = saved
		return v, err
	}
	if err := fc.declareSpec(sf); err != nil {
		return CVal{}, err
	}
	var as []string
	for i := range args {
		a := args[i]
		if a.T.Sort == "NIL" {
			_, ps, _ := fc.e.resolveType(sf.Params[i].Type, specPkg(sf, env.pkg))
			if ps == SAny {
				a.T = Term{"anil", SAny}
			} else {
				a.T = Term{"0", SInt}
			}
		}
		as = append(as, a.T.S)
	}
	if len(as) == 0 {
		return CVal{Term{"spec$" + sf.Name, rs}, rt}, nil
	}
	return CVal{Term{"(spec$" + sf.Name + " " + strings.Join(as, " ") + ")", rs}, rt}, nil
}

func specPkg(sf *SpecFunc, dflt string) string {
	if sf.Pkg != "" {
		return sf.Pkg
	}
	return dflt
}

// declareSpec emits the declaration (or pure definition) of a spec function.
func (fc *FnCtx) declareSpec(sf *SpecFunc) error {
	name := "spec$" + sf.Name
	if fc.declSet[name] {
		return nil
	}
	fc.declSet[name] = true
	pkg := ""
	if fc.c != nil {
		pkg = fc.c.Pkg
	}
	pkg = specPkg(sf, pkg)
	var ps, ps2 []string
	for _, p := range sf.Params {
		_, s, err := fc.e.resolveType(p.Type, pkg)
		if err != nil {
			return err
		}
		ps = append(ps, s)
		ps2 = append(ps2, fmt.Sprintf("(q$%s %s)", p.Name, s))
	}
	_, rs, err := fc.e.resolveType(sf.Result, pkg)
	if err != nil {
		return err
	}
	if sf.Body == nil {
		fc.decls = append(fc.decls, fmt.Sprintf("(declare-fun %s (%s) %s)", name, strings.Join(ps, " "), rs))
		return nil
	}
	// pure definition: evaluate the body with parameters bound to binder names
	env := &Env{fc: fc, pkg: pkg, vars: map[string]CVal{}, bound: map[string]CVal{}, st: &State{heap: map[string]Term{}}, old: &State{heap: map[string]Term{}}}
	for _, p := range sf.Params {
		gt, s, _ := fc.e.resolveType(p.Type, pkg)
		env.bound[p.Name] = CVal{Term{"q$" + p.Name, s}, gt}
	}
	// reserve slot so that nested spec declarations come first
	idx := len(fc.decls)
	fc.decls = append(fc.decls, "")
	body, err := env.eval(sf.Body)
	if err != nil {
		return fmt.Errorf("spec def %s: %v", sf.Name, err)
	}
	def := fmt.Sprintf("(define-fun %s (%s) %s %s)", name, strings.Join(ps2, " "), rs, body.T.S)
	if sf.Declared {
		var qs []string
		for _, p := range sf.Params {
			qs = append(qs, "q$"+p.Name)
		}
		app := name
		if len(qs) > 0 {
			app = "(" + name + " " + strings.Join(qs, " ") + ")"
		}
		def = fmt.Sprintf("(declare-fun %s (%s) %s)\n(assert (forall (%s) (! (= %s %s) :pattern (%s))))", name, strings.Join(ps, " "), rs, strings.Join(ps2, " "), app, body.T.S, app)
	}
	// move to the end (after dependencies)
	fc.decls = append(fc.decls[:idx], fc.decls[idx+1:]...)
	fc.decls = append(fc.decls, def)
	return nil
}

// ---- modifies helpers

type loc struct {
	arr  string
	sort string
	ref  Term
	pred string // non-empty: a set of references {r | pred with %r replaced by r}
}

// evalLocs evaluates a modifies expression to heap locations (in the current state of env).
func (env *Env) evalLocs(e Expr) ([]loc, error) {
	fc := env.fc
	switch x := e.(type) {
	case *EIdent:
		if srtName, ok := fc.e.specs.GhostVars[x.Name]; ok {
			_, srt, err := fc.e.resolveType(srtName, env.pkg)
			if err != nil {
				return nil, err
			}
			return []loc{{"GV" + x.Name, srt, Term{"", "SCALAR"}, ""}}, nil
		}
	case *ESel:
		base, err := env.eval(x.X)
		if err != nil {
			return nil, err
		}
		if x.Ghost {
			if base.GoT != nil {
				if _, ok := base.GoT.Underlying().(*types.Chan); ok {
					switch x.Name {
					case "len", "out":
						ct := base.GoT.Underlying().(*types.Chan)
						es := fc.e.sortOf(ct.Elem())
						return []loc{{"CL", arr(SInt, SInt), base.T, ""}, {"CO$" + sanitize(es), arr(SInt, arr(SInt, es)), base.T, ""}}, nil
					case "closed":
						return []loc{{"CC", arr(SInt, SInt), base.T, ""}}, nil
					case "rcvd":
						return []loc{{"CR", arr(SInt, SInt), base.T, ""}}, nil
					}
				}
				if p, ok := base.GoT.Underlying().(*types.Pointer); ok {
					if strings.HasPrefix(x.Name, "lock_") {
						return []loc{{"LK$" + sanitize(shortType(p.Elem())) + "$" + x.Name[5:], arr(SInt, SInt), base.T, ""}}, nil
					}
					key := typeKey(p.Elem()) + ".#" + x.Name
					if g, ok := fc.e.specs.Ghost[key]; ok {
						_, srt, err := fc.e.resolveType(g.Type, env.pkg)
						if err != nil {
							return nil, err
						}
						return []loc{{"G$" + sanitize(shortType(p.Elem())) + "$" + x.Name, arr(SInt, srt), base.T, ""}}, nil
					}
				}
			}
			return nil, fmt.Errorf("modifies: ghost location %s", e)
		}
		p, ok := base.GoT.Underlying().(*types.Pointer)
		if !ok {
			return nil, fmt.Errorf("modifies: %s is not a field of a pointer", e)
		}
		st, ok := p.Elem().Underlying().(*types.Struct)
		if !ok {
			return nil, fmt.Errorf("modifies: %s", e)
		}
		for i := 0; i < st.NumFields(); i++ {
			if st.Field(i).Name() == x.Name {
				return []loc{{fieldArrName(p.Elem(), x.Name), arr(SInt, fc.e.sortOf(st.Field(i).Type())), base.T, ""}}, nil
			}
		}
		return nil, fmt.Errorf("modifies: no field %s", x.Name)
	case *ECall:
		switch x.Fn {
		case "contents":
			v, err := env.eval(x.Args[0])
			if err != nil {
				return nil, err
			}
			if mt, ok := v.GoT.Underlying().(*types.Map); ok {
				dn, vn, ks, vs := fc.mapArrs(mt, regOrDefault(fc.e, v))
				return []loc{{dn, arr(SInt, arr(ks, SBool)), v.T, ""}, {vn, arr(SInt, arr(ks, vs)), v.T, ""}}, nil
			}
			if ct, ok := v.GoT.Underlying().(*types.Chan); ok {
				es := fc.e.sortOf(ct.Elem())
				return []loc{{"CL", arr(SInt, SInt), v.T, ""}, {"CO$" + sanitize(es), arr(SInt, arr(SInt, es)), v.T, ""}, {"CC", arr(SInt, SInt), v.T, ""}}, nil
			}
			return nil, fmt.Errorf("contents() of %s", shortType(v.GoT))
		case "children":
			// children(m): every map that was stored as a value into map m (built-in ghost parent link)
			v, err := env.eval(x.Args[0])
			if err != nil {
				return nil, err
			}
			mt, ok := v.GoT.Underlying().(*types.Map)
			if !ok {
				return nil, fmt.Errorf("children() of non-map")
			}
			it, ok := mt.Elem().Underlying().(*types.Map)
			if !ok {
				return nil, fmt.Errorf("children() of a map whose values are not maps")
			}
			dn, vn, ks, vs := fc.mapArrs(it, fc.e.regionElem(regOrDefault(fc.e, v)))
			mp := fc.heapGet(env.state(), "MP", arr(SInt, SInt))
			pred := fmt.Sprintf("(and (not (= %s 0)) (= (select %s %%r) %s))", v.T.S, mp.S, v.T.S)
			return []loc{{dn, arr(SInt, arr(ks, SBool)), Term{}, pred}, {vn, arr(SInt, arr(ks, vs)), Term{}, pred}}, nil
		case "deref":
			v, err := env.eval(x.Args[0])
			if err != nil {
				return nil, err
			}
			elemT := ptrElem(v.GoT)
			if elemT == nil {
				return nil, fmt.Errorf("deref of non-pointer")
			}
			if st, ok := elemT.Underlying().(*types.Struct); ok && !isTimeType(elemT) {
				var out []loc
				for i := 0; i < st.NumFields(); i++ {
					if isSyncType(st.Field(i).Type()) {
						continue
					}
					out = append(out, loc{fieldArrName(elemT, st.Field(i).Name()), arr(SInt, fc.e.sortOf(st.Field(i).Type())), v.T, ""})
				}
				return out, nil
			}
			return []loc{{derefArrName(elemT), arr(SInt, fc.e.sortOf(elemT)), v.T, ""}}, nil
		}
	}
	return nil, fmt.Errorf("unsupported modifies expression %s", e)
}

// modExprArrays: names of heap arrays a modifies expression may touch (type-level only).
func (fc *FnCtx) modExprArrays(e Expr, ct *FuncContract) []string {
	f := fc.e.funcs[ct.Key]
	env := &Env{fc: fc, pkg: ct.Pkg, vars: map[string]CVal{}, bound: map[string]CVal{}, st: &State{heap: map[string]Term{}}, old: &State{heap: map[string]Term{}}}
	scratch := &FnCtx{e: fc.e, declSet: map[string]bool{}, base: map[string]Term{}, baseSort: map[string]string{}, counter: map[string]int{}, c: ct}
	env.fc = scratch
	if f != nil {
		for _, p := range f.Params {
			env.vars[p.Name()] = CVal{Term{"p", fc.e.sortOf(p.Type())}, p.Type()}
		}
	} else {
		fc.e.bindIfaceParams(ct, env)
	}
	locs, err := env.evalLocs(e)
	if err != nil {
		return nil
	}
	var out []string
	for _, l := range locs {
		out = append(out, l.arr)
	}
	return out
}

// resolveHeapNames: heap(contents:Type.field) names the domain and value arrays of the region of the
// maps stored in that field; every other form names one array.
func (fc *FnCtx) resolveHeapNames(n, pkg string) []string {
	if strings.HasPrefix(n, "contents:") {
		n = strings.TrimPrefix(n, "contents:")
		if i := strings.LastIndex(n, "."); i > 0 {
			t, _, err := fc.e.resolveType(n[:i], pkg)
			if err == nil && t != nil {
				if st, ok := t.Underlying().(*types.Struct); ok {
					for k := 0; k < st.NumFields(); k++ {
						if f := st.Field(k); f.Name() == n[i+1:] {
							if mt, ok := f.Type().Underlying().(*types.Map); ok {
								dn, vn, _, _ := fc.mapArrs(mt, fc.e.regionOfField(t, f))
								return []string{dn, vn}
							}
						}
					}
				}
			}
		}
		fc.unsupported("heap(contents:%s): no such map field", n)
		return nil
	}
	return []string{fc.resolveHeapName(n, pkg)}
}

func (fc *FnCtx) resolveHeapName(n, pkg string) string {
	// "lexer.pos" -> F$lexer_lexer$pos ; "Type.field" with Type in pkg
	if strings.HasPrefix(n, "F$") || strings.HasPrefix(n, "D$") || strings.HasPrefix(n, "M") || strings.HasPrefix(n, "C") || strings.HasPrefix(n, "G$") || n == "Alloc" {
		return n
	}
	i := strings.LastIndex(n, ".")
	if i < 0 {
		return n
	}
	tn, fn := n[:i], n[i+1:]
	t, _, err := fc.e.resolveType(tn, pkg)
	if err != nil || t == nil {
		return n
	}
	if strings.HasPrefix(fn, "#") {
		return "G$" + sanitize(shortType(t)) + "$" + fn[1:]
	}
	return fieldArrName(t, fn)
}

func regOrDefault(e *Engine, v CVal) string {
	if r := regOfT(v.GoT); r != "" {
		return r
	}
	if v.GoT != nil {
		return e.regionDefault(v.GoT)
	}
	return ""
}

// predInfo: a `spec pred` as the solver sees it - a function symbol over the parameters and the heap
// arrays the body reads, with one defining axiom. Two uses on equal arguments and equal arrays are
// then equal by congruence, without the solver opening the (quantified) body.
type predInfo struct {
	fun    string
	arrays []string // heap array names, in argument order
	sorts  []string
}

var rePredTok = regexp.MustCompile(`[^\s()]+@e7\d{6}`)

func (env *Env) callPred(sf *SpecFunc, args []CVal) (CVal, bool, error) {
	fc := env.fc
	pkg := specPkg(sf, env.pkg)
	key := sf.Name
	var ptypes []types.Type
	var psorts []string
	for i, p := range sf.Params {
		pt, ps, err := fc.e.resolveType(p.Type, pkg)
		if err != nil {
			return CVal{}, false, err
		}
		if args[i].GoT != nil {
			pt = args[i].GoT
		}
		if args[i].T.Sort != ps {
			return CVal{}, false, nil // (nil literals and the like: expand as a macro)
		}
		ptypes, psorts = append(ptypes, pt), append(psorts, ps)
		key += "|" + shortType(unwrapT(pt)) + "#" + regOfT(pt)
	}
	if fc.preds == nil {
		fc.preds = map[string]*predInfo{}
	}
	pi := fc.preds[key]
	if pi == nil {
		probe := &State{heap: map[string]Term{}, epoch: 7000000 + len(fc.preds)}
		penv := &Env{fc: fc, pkg: pkg, vars: map[string]CVal{}, bound: map[string]CVal{}, st: probe, old: probe}
		var binders, names []string
		for i, p := range sf.Params {
			fc.nquant++
			nm := fmt.Sprintf("q$P%s_%d", p.Name, fc.nquant)
			penv.bound[p.Name] = CVal{Term{nm, psorts[i]}, ptypes[i]}
			binders = append(binders, fmt.Sprintf("(%s %s)", nm, psorts[i]))
			names = append(names, nm)
		}
		body, err := penv.evalBool(sf.Body)
		if err != nil {
			return CVal{}, false, err
		}
		pi = &predInfo{fun: fmt.Sprintf("pred$%s$%d", sf.Name, len(fc.preds))}
		for n := range probe.heap {
			pi.arrays = append(pi.arrays, n)
		}
		sort.Strings(pi.arrays)
		repl := map[string]string{}
		for _, n := range pi.arrays {
			t := probe.heap[n]
			pi.sorts = append(pi.sorts, t.Sort)
			v := "q$H" + sanitize(n)
			repl[t.S] = v
			binders = append(binders, fmt.Sprintf("(%s %s)", v, t.Sort))
			names = append(names, v)
		}
		bad := false
		b := rePredTok.ReplaceAllStringFunc(body.S, func(tok string) string {
			if v, ok := repl[tok]; ok {
				return v
			}
			bad = true
			return tok
		})
		if bad {
			return CVal{}, false, fmt.Errorf("spec pred %s: the body reads state that is not a heap array", sf.Name)
		}
		fc.declareFun(pi.fun, append(append([]string{}, psorts...), pi.sorts...), SBool)
		app := "(" + pi.fun + " " + strings.Join(names, " ") + ")"
		fc.fact(fmt.Sprintf("(forall (%s) (! (= %s %s) :pattern (%s)))", strings.Join(binders, " "), app, b, app))
		fc.preds[key] = pi
	}
	as := make([]string, 0, len(args)+len(pi.arrays))
	for _, a := range args {
		as = append(as, a.T.S)
	}
	for i, n := range pi.arrays {
		as = append(as, fc.heapGet(env.state(), n, pi.sorts[i]).S)
	}
	return CVal{Term{"(" + pi.fun + " " + strings.Join(as, " ") + ")", SBool}, types.Typ[types.Bool]}, true, nil
}
