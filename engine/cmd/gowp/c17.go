package main

// C17: every alternative of every BQL grammar rule is live and chosen by one token. The grammar
// tables are obtained by ground evaluation of BQL() and SemanticBQL() (ground.go); each clause of
// the property becomes one ground obligation per rule / alternative, discharged by the solver.

import (
	"fmt"
	"go/constant"
	"go/types"
	"sort"
	"strings"
)

func (e *Engine) tokenNames() map[int64]string {
	out := map[int64]string{}
	p := e.pkgs["github.com/google/badwolf/bql/lexer"]
	if p == nil || p.Types == nil {
		return out
	}
	for _, n := range p.Types.Scope().Names() {
		if c, ok := p.Types.Scope().Lookup(n).(*types.Const); ok && strings.HasPrefix(n, "Item") {
			if v, ok := constant.Int64Val(c.Val()); ok {
				out[v] = n
			}
		}
	}
	return out
}

// simulate the predictive parser (Parser.consume / Parser.expect) on a token sequence.
type takenAlt struct {
	rule string
	alt  int
}

func simulate(t *gTable, toks []int64, eof int64) (accepted bool, taken map[takenAlt]bool, steps []string) {
	taken = map[takenAlt]bool{}
	pos := 0
	cur := func() int64 {
		if pos < len(toks) {
			return toks[pos]
		}
		return eof
	}
	var consume func(s string, depth int) bool
	consume = func(s string, depth int) bool {
		if depth > 400 {
			return false
		}
		for ai, cl := range t.Rules[s] {
			if len(cl.Elems) == 0 {
				taken[takenAlt{s, ai}] = true
				steps = append(steps, fmt.Sprintf("(= %d %d)", 0, len(cl.Elems))) // empty alternative reached
				return true
			}
			if cl.Elems[0].IsSymbol {
				return false
			}
			if cur() == cl.Elems[0].Token {
				taken[takenAlt{s, ai}] = true
				steps = append(steps, fmt.Sprintf("(= %d %d)", cur(), cl.Elems[0].Token))
				for _, el := range cl.Elems {
					if el.IsSymbol {
						if !consume(el.Symbol, depth+1) {
							return false
						}
					} else {
						if cur() != el.Token {
							return false
						}
						steps = append(steps, fmt.Sprintf("(= %d %d)", cur(), el.Token))
						pos++
					}
				}
				return true
			}
			steps = append(steps, fmt.Sprintf("(not (= %d %d))", cur(), cl.Elems[0].Token))
		}
		return false
	}
	ok := consume("START", 0)
	return ok && pos == len(toks), taken, steps
}

func (e *Engine) c17Obligations(id string) []*Oblig {
	var out []*Oblig
	fc := e.newFnCtx("grammar.BQL", nil, nil)
	fc.short = "grammar"
	fc.props = []string{id}
	add := func(name, goal, src string) {
		o := fc.oblig("ground", name, goal, "true", 0, []string{id})
		o.Src = src
		out = append(out, o)
	}
	tbl, opaque, err := e.evalGrammar("BQL")
	if err != nil {
		add("BQL/ground-evaluation", "false", "BQL() could not be evaluated to a ground table: "+err.Error())
		return out
	}
	add("BQL/ground-evaluation", "true", fmt.Sprintf("BQL() evaluated to a ground table of %d rules (calls left opaque: %v)", len(tbl.Symbols), opaque))
	names := e.tokenNames()
	tn := func(t int64) string {
		if n, ok := names[t]; ok {
			return n
		}
		return fmt.Sprint(t)
	}
	var eofTok, errTok int64 = 1, 0
	for v, n := range names {
		if n == "ItemEOF" {
			eofTok = v
		}
		if n == "ItemError" {
			errTok = v
		}
	}
	syms := append([]string{}, tbl.Symbols...)
	sort.Strings(syms)
	isKey := map[string]bool{}
	for _, s := range syms {
		isKey[s] = true
	}
	b2s := func(b bool) string {
		if b {
			return "true"
		}
		return "false"
	}
	// reachability depth (BFS from START) and productivity height: certificates
	depth := map[string]int{"START": 0}
	parent := map[string]string{}
	queue := []string{"START"}
	for len(queue) > 0 {
		s := queue[0]
		queue = queue[1:]
		for _, cl := range tbl.Rules[s] {
			for _, el := range cl.Elems {
				if el.IsSymbol {
					if _, seen := depth[el.Symbol]; !seen && isKey[el.Symbol] {
						depth[el.Symbol] = depth[s] + 1
						parent[el.Symbol] = s
						queue = append(queue, el.Symbol)
					}
				}
			}
		}
	}
	height := map[string]int{}
	prodAlt := map[string]int{}
	for changed := true; changed; {
		changed = false
		for _, s := range syms {
			if _, done := height[s]; done {
				continue
			}
			for ai, cl := range tbl.Rules[s] {
				h, ok := 0, true
				for _, el := range cl.Elems {
					if el.IsSymbol {
						hh, known := height[el.Symbol]
						if !known {
							ok = false
							break
						}
						if hh+1 > h {
							h = hh + 1
						}
					}
				}
				if ok {
					height[s], prodAlt[s] = h, ai
					changed = true
					break
				}
			}
		}
	}
	if !isKey["START"] {
		add("BQL/start-rule", "false", "the grammar has no START rule")
	}
	for _, s := range syms {
		cls := tbl.Rules[s]
		// first element of every non-empty alternative is a token; pairwise distinct
		var firsts []string
		firstTok := true
		nEmpty, emptyPos := 0, -1
		defined := true
		var undefined []string
		noEnd := true
		for ai, cl := range cls {
			if len(cl.Elems) == 0 {
				nEmpty++
				emptyPos = ai
				continue
			}
			if cl.Elems[0].IsSymbol {
				firstTok = false
			} else {
				firsts = append(firsts, fmt.Sprint(cl.Elems[0].Token))
			}
			for _, el := range cl.Elems {
				if el.IsSymbol && !isKey[el.Symbol] {
					defined = false
					undefined = append(undefined, el.Symbol)
				}
				if !el.IsSymbol && (el.Token == eofTok || el.Token == errTok) {
					noEnd = false
				}
			}
		}
		add("BQL/first-is-token["+s+"]", b2s(firstTok), "every non-empty alternative of "+s+" starts with a token")
		goal := "true"
		if len(firsts) > 1 {
			goal = "(distinct " + strings.Join(firsts, " ") + ")"
		}
		var fn []string
		for _, cl := range cls {
			if len(cl.Elems) > 0 && !cl.Elems[0].IsSymbol {
				fn = append(fn, tn(cl.Elems[0].Token))
			}
		}
		add("BQL/distinct-first["+s+"]", goal, "alternatives of "+s+" begin with pairwise different tokens: "+strings.Join(fn, ", "))
		add("BQL/empty-last["+s+"]", fmt.Sprintf("(and (<= %d 1) (=> (= %d 1) (= %d %d)))", nEmpty, nEmpty, emptyPos, len(cls)-1), "at most one empty alternative of "+s+", and it is the last one")
		add("BQL/defined["+s+"]", b2s(defined), "every symbol referenced by "+s+" is a rule"+strings.Join(undefined, ","))
		add("BQL/no-end-token["+s+"]", b2s(noEnd), "no alternative of "+s+" contains the end-of-input or the error token")
		add("BQL/nonempty-rule["+s+"]", b2s(len(cls) > 0), s+" has at least one alternative")
		// reachable: certificate = parent of smaller depth that references s
		if s != "START" {
			d, ok := depth[s]
			cert := "false"
			src := s + " is not reachable from START"
			if ok {
				p := parent[s]
				refs := false
				for _, cl := range tbl.Rules[p] {
					for _, el := range cl.Elems {
						if el.IsSymbol && el.Symbol == s {
							refs = true
						}
					}
				}
				cert = fmt.Sprintf("(and %s (< %d %d))", b2s(refs), depth[p], d)
				src = fmt.Sprintf("%s is reachable from START: referenced by %s (depth %d < %d)", s, p, depth[p], d)
			}
			add("BQL/reachable["+s+"]", cert, src)
		}
		// productive: certificate = alternative all of whose symbols have smaller height
		h, ok := height[s]
		cert, src := "false", s+" derives no finite token sequence"
		if ok {
			var parts []string
			for _, el := range cls[prodAlt[s]].Elems {
				if el.IsSymbol {
					parts = append(parts, fmt.Sprintf("(< %d %d)", height[el.Symbol], h))
				}
			}
			cert = and(parts...)
			src = fmt.Sprintf("%s derives a finite token sequence through alternative %d (derivation height %d)", s, prodAlt[s], h)
		}
		add("BQL/productive["+s+"]", cert, src)
	}
	// liveness witnesses
	allOK := len(height) == len(syms)
	for _, s := range syms {
		if _, ok := depth[s]; !ok && s != "START" {
			allOK = false
		}
	}
	if allOK {
		out = append(out, e.c17Live(fc, tbl, syms, height, prodAlt, eofTok, tn, id)...)
	}
	// SemanticBQL has exactly the rules and alternatives of BQL
	sem, _, err := e.evalGrammar("SemanticBQL")
	if err != nil {
		add("SemanticBQL/ground-evaluation", "false", "SemanticBQL() could not be evaluated: "+err.Error())
		return out
	}
	semSyms := append([]string{}, sem.Symbols...)
	sort.Strings(semSyms)
	add("SemanticBQL/same-rules", b2s(strings.Join(semSyms, ",") == strings.Join(syms, ",")), fmt.Sprintf("SemanticBQL() has the same %d rule names as BQL()", len(syms)))
	hooks := 0
	for _, s := range syms {
		a, b := tbl.Rules[s], sem.Rules[s]
		same := len(a) == len(b)
		var eqs []string
		for i := 0; same && i < len(a); i++ {
			if len(a[i].Elems) != len(b[i].Elems) {
				same = false
				break
			}
			for j := range a[i].Elems {
				x, y := a[i].Elems[j], b[i].Elems[j]
				if x.IsSymbol != y.IsSymbol || x.Symbol != y.Symbol {
					same = false
				}
				eqs = append(eqs, fmt.Sprintf("(= %d %d)", x.Token, y.Token))
			}
			if b[i].HasStart || b[i].HasEnd || b[i].HasElem {
				hooks++
			}
		}
		goal := b2s(same)
		if same && len(eqs) > 0 {
			goal = and(eqs...)
		}
		add("SemanticBQL/same-alternatives["+s+"]", goal, "the alternatives of "+s+" in SemanticBQL() are element by element those of BQL()")
	}
	add("SemanticBQL/hooks-installed", b2s(hooks > 0), fmt.Sprintf("%d alternatives of SemanticBQL() carry hooks (the decorated table is not the plain one)", hooks))
	return out
}

// c17Live: for each alternative a concrete token sequence which the predictive parser accepts by
// taking that alternative (certificate found by search, checked step by step).
func (e *Engine) c17Live(fc *FnCtx, tbl *gTable, syms []string, height map[string]int, prodAlt map[string]int, eofTok int64, tn func(int64) string, id string) []*Oblig {
	var out []*Oblig
	// shortest expansion of a symbol (following the productive certificate)
	var minExp func(s string, depth int) []int64
	memo := map[string][]int64{}
	minExp = func(s string, depth int) []int64 {
		if v, ok := memo[s]; ok {
			return v
		}
		var toks []int64
		for _, el := range tbl.Rules[s][prodAlt[s]].Elems {
			if el.IsSymbol {
				toks = append(toks, minExp(el.Symbol, depth+1)...)
			} else {
				toks = append(toks, el.Token)
			}
		}
		memo[s] = toks
		return toks
	}
	expandAlt := func(s string, ai int, force map[string]int) []int64 {
		var toks []int64
		for _, el := range tbl.Rules[s][ai].Elems {
			if el.IsSymbol {
				toks = append(toks, minExp(el.Symbol, 0)...)
			} else {
				toks = append(toks, el.Token)
			}
		}
		return toks
	}
	// contexts: all ways to reach symbol s from START as (prefix tokens, suffix tokens), up to a bound
	type ctx struct{ pre, suf []int64 }
	ctxs := map[string][]ctx{"START": {{nil, nil}}}
	order := append([]string{}, syms...)
	for round := 0; round < 6; round++ {
		for _, p := range order {
			for _, c := range ctxs[p] {
				for ai, cl := range tbl.Rules[p] {
					for k, el := range cl.Elems {
						if !el.IsSymbol {
							continue
						}
						if len(ctxs[el.Symbol]) >= 24 {
							continue
						}
						var pre, suf []int64
						pre = append(pre, c.pre...)
						for _, b := range cl.Elems[:k] {
							if b.IsSymbol {
								pre = append(pre, minExp(b.Symbol, 0)...)
							} else {
								pre = append(pre, b.Token)
							}
						}
						for _, a := range cl.Elems[k+1:] {
							if a.IsSymbol {
								suf = append(suf, minExp(a.Symbol, 0)...)
							} else {
								suf = append(suf, a.Token)
							}
						}
						suf = append(suf, c.suf...)
						dup := false
						for _, x := range ctxs[el.Symbol] {
							if fmt.Sprint(x) == fmt.Sprint(ctx{pre, suf}) {
								dup = true
							}
						}
						if !dup {
							ctxs[el.Symbol] = append(ctxs[el.Symbol], ctx{pre, suf})
						}
						_ = ai
					}
				}
			}
		}
	}
	for _, s := range syms {
		for ai := range tbl.Rules[s] {
			found := false
			var wit []int64
			var trace []string
			body := expandAlt(s, ai, nil)
			for _, c := range ctxs[s] {
				var toks []int64
				toks = append(toks, c.pre...)
				toks = append(toks, body...)
				toks = append(toks, c.suf...)
				ok, taken, steps := simulate(tbl, toks, eofTok)
				if ok && taken[takenAlt{s, ai}] {
					found, wit, trace = true, toks, steps
					break
				}
			}
			var names []string
			for _, t := range wit {
				names = append(names, tn(t))
			}
			goal := "false"
			src := fmt.Sprintf("no token sequence found which the parser accepts by taking alternative %d of %s (searched %d contexts)", ai, s, len(ctxs[s]))
			if found {
				goal = and(trace...)
				src = fmt.Sprintf("alternative %d of %s is taken when parsing: %s", ai, s, strings.Join(names, " "))
			}
			o := fc.oblig("ground", fmt.Sprintf("BQL/live[%s#%d]", s, ai), goal, "true", 0, []string{id})
			o.Src = src
			out = append(out, o)
		}
	}
	return out
}
