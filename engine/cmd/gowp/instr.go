package main

import (
	"regexp"
	"fmt"
	"strings"
	"go/token"
	"go/types"
	"strconv"

	"golang.org/x/tools/go/ssa"
)

func ptrElem(t types.Type) types.Type {
	if p, ok := t.Underlying().(*types.Pointer); ok {
		return p.Elem()
	}
	return nil
}

func isRefType(t types.Type) bool {
	switch t.Underlying().(type) {
	case *types.Pointer, *types.Map, *types.Chan:
		return true
	}
	return false
}

func (fr *frame) safety(kind string, goal string, reach string, pos token.Pos, src string) {
	o := fr.fc.oblig("safety", "safety."+kind, goal, reach, pos, nil)
	o.Src = src
}

// frameCheck: a write to heap array arrName at ref must be permitted by the modifies clause.
func (fr *frame) frameCheck(st *State, arrName string, ref Term, reach string, pos token.Pos) {
	fc := fr.fc
	for _, sl := range fc.strict[arrName] {
		o := fc.oblig("frame", "nowrite."+arrName, not(eq(ref.S, sl.ref.S)), reach, pos, sl.props)
		o.Src = "the location " + sl.src + " is never written (not even temporarily)"
	}
	if fc.c == nil || fc.modEvery || fc.modAll[arrName] {
		return
	}
	if po := fc.c.Opts["modifies-outside"]; po != "" && !fc.ownedBy(arrName, po) {
		return
	}
	o := fc.oblig("frame", "frame."+arrName, fc.allowed(fr.old, arrName, ref.S), reach, pos, nil)
	o.Src = "write to " + arrName + " must be covered by the modifies clause"
}

// frameGoal: the condition under which a write to arrName[ref] is permitted ("" = always).
func (fr *frame) frameGoal(arrName string, ref Term) string {
	fc := fr.fc
	if fc.c == nil || fc.modEvery || fc.modAll[arrName] {
		return ""
	}
	if po := fc.c.Opts["modifies-outside"]; po != "" && !fc.ownedBy(arrName, po) {
		return ""
	}
	return fc.allowed(fr.old, arrName, ref.S)
}

// allowed: the write-permission predicate of the function under verification for heap array arrName at ref r.
func (fc *FnCtx) allowed(old *State, arrName, r string) string {
	al := fc.heapGet(old, "Alloc", SAlloc)
	alts := []string{not(allocd(al.S, r))}
	for _, m := range fc.modset[arrName] {
		alts = append(alts, eq(r, m.S))
	}
	for _, p := range fc.modpred[arrName] {
		alts = append(alts, strings.ReplaceAll(p, "%r", r))
	}
	return or(alts...)
}

func (fr *frame) structFields(t types.Type) (*types.Struct, bool) {
	s, ok := t.Underlying().(*types.Struct)
	return s, ok
}

// loadRef loads the value *ref where ref points to elemT.
func (fr *frame) loadRef(st *State, ref Term, elemT types.Type) Val {
	fc := fr.fc
	if isTimeType(elemT) {
		a := fc.heapGet(st, derefArrName(elemT), arr(SInt, STime))
		return Term{sel(a.S, ref.S), STime}
	}
	if stt, ok := fr.structFields(elemT); ok {
		sn := fc.e.sortOf(elemT)
		si := fc.e.structs[typeKey(elemT)]
		var fs string
		for i, f := range si.fields {
			a := fc.heapGet(st, fieldArrName(elemT, f.Name()), arr(SInt, si.sorts[i]))
			fs += " " + sel(a.S, ref.S)
		}
		_ = stt
		if len(si.fields) == 0 {
			fs = " 0"
		}
		return fc.define("ld", Term{"(mk" + sn + fs + ")", sn})
	}
	if at, ok := elemT.Underlying().(*types.Array); ok && false {
		_ = at
	}
	sn := fc.e.sortOf(elemT)
	a := fc.heapGet(st, derefArrName(elemT), arr(SInt, sn))
	v := Term{sel(a.S, ref.S), sn}
	if sn == SInt && isRefType(elemT) {
		v = fc.define("ld", v)
		fc.assumeAllocatedFrom(st, v, a)
	}
	if isSlc(sn) {
		v = fc.define("ld", v)
		fc.fact(fmt.Sprintf("(and (<= 0 (soff %s)) (<= 0 (slen %s)))", v.S, v.S))
	}
	return v
}

func (fr *frame) storeRef(st *State, ref Term, elemT types.Type, v Term, reach string, pos token.Pos) {
	fc := fr.fc
	if isTimeType(elemT) {
		n := derefArrName(elemT)
		a := fc.heapGet(st, n, arr(SInt, STime))
		fr.frameCheck(st, n, ref, reach, pos)
		fc.heapSet(st, n, Term{store(a.S, ref.S, v.S), a.Sort})
		return
	}
	if _, ok := fr.structFields(elemT); ok {
		sn := fc.e.sortOf(elemT)
		si := fc.e.structs[typeKey(elemT)]
		for i, f := range si.fields {
			n := fieldArrName(elemT, f.Name())
			a := fc.heapGet(st, n, arr(SInt, si.sorts[i]))
			fr.frameCheck(st, n, ref, reach, pos)
			fc.heapSet(st, n, Term{store(a.S, ref.S, fmt.Sprintf("(%s$%s %s)", sn, f.Name(), v.S)), a.Sort})
		}
		return
	}
	sn := fc.e.sortOf(elemT)
	n := derefArrName(elemT)
	a := fc.heapGet(st, n, arr(SInt, sn))
	fr.frameCheck(st, n, ref, reach, pos)
	fc.heapSet(st, n, Term{store(a.S, ref.S, v.S), a.Sort})
}

func (fr *frame) exec(in ssa.Instruction, st *State, reach string) {
	fc := fr.fc
	e := fc.e
	switch i := in.(type) {
	case *ssa.Alloc:
		elemT := ptrElem(i.Type())
		if at, ok := elemT.Underlying().(*types.Array); ok {
			cell := &ArrCell{ElemT: at.Elem(), Fresh: true}
			for k := int64(0); k < at.Len(); k++ {
				cell.Elems = append(cell.Elems, e.zero(e.sortOf(at.Elem()), at.Elem()))
			}
			fr.vals[i] = cell
			return
		}
		r := fc.newRef(st, i.Comment)
		fr.vals[i] = r
		if isSyncType(elemT) {
			return // a local mutex / wait group: an opaque object
		}
		if privateCell(i) {
			if _, isStruct := elemT.Underlying().(*types.Struct); !isStruct || isTimeType(elemT) {
				fr.priv = append(fr.priv, privCell{r, elemT, i})
			}
		}
		// zero-initialise
		if isTimeType(elemT) {
			fr.storeRefNoFrame(st, r, elemT, e.zero(STime, elemT))
		} else if _, ok := fr.structFields(elemT); ok {
			sn := e.sortOf(elemT)
			si := e.structs[typeKey(elemT)]
			for k, f := range si.fields {
				n := fieldArrName(elemT, f.Name())
				a := fc.heapGet(st, n, arr(SInt, si.sorts[k]))
				fc.heapSet(st, n, Term{store(a.S, r.S, e.zero(si.sorts[k], f.Type()).S), a.Sort})
			}
			_ = sn
			if isNamed(elemT, "bytes", "Buffer") {
				a := bufArr(fc, st)
				fc.heapSet(st, "BUF", Term{store(a.S, r.S, "\"\""), a.Sort})
			}
			// mutex fields start unlocked
			if stt, ok := elemT.Underlying().(*types.Struct); ok {
				for k := 0; k < stt.NumFields(); k++ {
					if isSyncType(stt.Field(k).Type()) {
						n := "LK$" + sanitize(shortType(elemT)) + "$" + stt.Field(k).Name()
						a := fc.heapGet(st, n, arr(SInt, SInt))
						fc.heapSet(st, n, Term{store(a.S, r.S, "0"), a.Sort})
					}
				}
			}
			// declared ghost fields start at their zero value
			for _, g := range e.specs.Ghost {
				if g.Struct != typeKey(elemT) {
					continue
				}
				_, gs, err := e.resolveType(g.Type, "")
				if err != nil {
					continue
				}
				n := "G$" + sanitize(shortType(elemT)) + "$" + g.Name
				a := fc.heapGet(st, n, arr(SInt, gs))
				fc.heapSet(st, n, Term{store(a.S, r.S, e.zero(gs, nil).S), a.Sort})
			}
		} else {
			fr.storeRefNoFrame(st, r, elemT, e.zero(e.sortOf(elemT), elemT))
		}
	case *ssa.FieldAddr:
		base := fr.val(i.X)
		bt, ok := base.(Term)
		if !ok {
			if pe, isPE := base.(*PtrSliceElem); isPE && pe.Field == "" && pe.ElemT != nil {
				stT := ptrElem(i.X.Type())
				f := stT.Underlying().(*types.Struct).Field(i.Field)
				fr.vals[i] = &PtrSliceElem{Slice: pe.Slice, Idx: pe.Idx, Src: pe.Src, ElemT: pe.ElemT, Field: f.Name(), FieldT: f.Type()}
				return
			}
			if pa, isPA := base.(*PtrArrElem); isPA && pa.Field == "" {
				stT := ptrElem(i.X.Type())
				if sst, ok := stT.Underlying().(*types.Struct); ok {
					f := sst.Field(i.Field)
					e.sortOf(stT)
					fr.vals[i] = &PtrArrElem{Cell: pa.Cell, Idx: pa.Idx, Field: f.Name(), FieldT: f.Type(), StructT: stT}
					return
				}
			}
			if pf, isPF := base.(*PtrField); isPF {
				// nested struct field: only sync primitives are supported
				stT := ptrElem(i.X.Type())
				f := stT.Underlying().(*types.Struct).Field(i.Field)
				fr.vals[i] = &PtrField{Base: pf.Base, Arr: pf.Arr + "$" + f.Name(), Sort: e.sortOf(f.Type()), FieldT: f.Type(), StructT: stT, Name: pf.Name + "." + f.Name()}
				return
			}
			fc.unsupported("FieldAddr on %T in %s", base, fr.fn.Name())
			fr.vals[i] = &PtrField{Base: fc.fresh("undef", SInt), Arr: "undef", Sort: SInt}
			return
		}
		stT := ptrElem(i.X.Type())
		f := stT.Underlying().(*types.Struct).Field(i.Field)
		fr.safety("nil", not(eq(bt.S, "0")), reach, i.Pos(), "nil dereference at field "+f.Name())
		fr.vals[i] = &PtrField{Base: bt, Arr: fieldArrName(stT, f.Name()), Sort: e.sortOf(f.Type()), FieldT: f.Type(), StructT: stT, Name: f.Name()}
	case *ssa.Field:
		x := fr.term(i.X)
		stT := i.X.Type()
		f := stT.Underlying().(*types.Struct).Field(i.Field)
		fr.vals[i] = Term{fmt.Sprintf("(%s$%s %s)", x.Sort, f.Name(), x.S), e.sortOf(f.Type())}
	case *ssa.IndexAddr:
		base := fr.val(i.X)
		switch b := base.(type) {
		case *ArrCell:
			c, ok := i.Index.(*ssa.Const)
			if !ok {
				fc.unsupported("IndexAddr on local array with symbolic index in %s", fr.fn.Name())
				fr.vals[i] = &PtrArrElem{Cell: b, Idx: 0}
				return
			}
			fr.vals[i] = &PtrArrElem{Cell: b, Idx: int(c.Int64())}
		case Term:
			if isSlc(b.Sort) {
				idx := fr.term(i.Index)
				fr.safety("index", fmt.Sprintf("(and (<= 0 %s) (< %s (slen %s)))", idx.S, idx.S, b.S), reach, i.Pos(), "slice index in range")
				fr.vals[i] = &PtrSliceElem{Slice: b, Idx: idx, Src: i.X, ElemT: i.X.Type().Underlying().(*types.Slice).Elem()}
				return
			}
			fc.unsupported("IndexAddr on %s (%s) in %s", i.X.Name(), b.Sort, fr.fn.Name())
			fr.vals[i] = &PtrSliceElem{Slice: b, Idx: Term{"0", SInt}}
		default:
			fc.unsupported("IndexAddr on %T in %s", base, fr.fn.Name())
		}
	case *ssa.Index:
		x := fr.term(i.X)
		idx := fr.term(i.Index)
		if x.Sort == SString {
			fr.safety("index", fmt.Sprintf("(and (<= 0 %s) (< %s (str.len %s)))", idx.S, idx.S, x.S), reach, i.Pos(), "string index in range")
			fr.vals[i] = fc.define(i.Name(), Term{fmt.Sprintf("(str.to_code (str.at %s %s))", x.S, idx.S), SInt})
			return
		}
		if isArr(x.Sort) {
			fr.vals[i] = Term{sel(x.S, idx.S), sortArgs(x.Sort)[1]}
			return
		}
		fc.unsupported("Index on sort %s", x.Sort)
	case *ssa.Lookup:
		x := fr.term(i.X)
		idx := fr.term(i.Index)
		if x.Sort == SString {
			fr.safety("index", fmt.Sprintf("(and (<= 0 %s) (< %s (str.len %s)))", idx.S, idx.S, x.S), reach, i.Pos(), "string index in range")
			fr.vals[i] = fc.define(i.Name(), Term{fmt.Sprintf("(str.to_code (str.at %s %s))", x.S, idx.S), SInt})
			return
		}
		mt := i.X.Type().Underlying().(*types.Map)
		fr.guardCheck(i.X, false, reach, i.Pos())
		fr.inheritGuard(i, i.X)
		dn, vn, ks, vs := fc.mapArrs(mt, e.regionOf(i.X))
		dom := fc.heapGet(st, dn, arr(SInt, arr(ks, SBool)))
		val := fc.heapGet(st, vn, arr(SInt, arr(ks, vs)))
		has := Term{sel(sel(dom.S, x.S), idx.S), SBool}
		// reading a nil map is allowed in Go: the nil map is empty (see nilMapEmpty)
		v := fc.define(i.Name(), Term{fmt.Sprintf("(ite %s %s %s)", has.S, sel(sel(val.S, x.S), idx.S), e.zero(vs, mt.Elem()).S), vs})
		if vs == SInt && isRefType(mt.Elem()) {
			fc.assumeAllocatedFrom(st, v, val)
		}
		if i.CommaOk {
			fr.vals[i] = &Tuple{[]Val{v, fc.define(i.Name()+"_ok", has)}}
		} else {
			fr.vals[i] = v
		}
	case *ssa.Slice:
		fr.execSlice(i, st, reach)
	case *ssa.UnOp:
		fr.execUnOp(i, st, reach)
	case *ssa.BinOp:
		fr.vals[i] = fr.binop(i, reach)
	case *ssa.Store:
		fr.execStore(i, st, reach)
	case *ssa.MapUpdate:
		m := fr.term(i.Map)
		k := fr.term(i.Key)
		v := fr.term(i.Value)
		mt := i.Map.Type().Underlying().(*types.Map)
		fr.guardCheck(i.Map, true, reach, i.Pos())
		dn, vn, ks, vs := fc.mapArrs(mt, e.regionOf(i.Map))
		fr.safety("nilmap", not(eq(m.S, "0")), reach, i.Pos(), "assignment to entry in nil map")
		fc.factIf(reach, not(eq(m.S, "0"))) // checked just above
		dom := fc.heapGet(st, dn, arr(SInt, arr(ks, SBool)))
		val := fc.heapGet(st, vn, arr(SInt, arr(ks, vs)))
		fr.frameCheck(st, dn, m, reach, i.Pos())
		fc.heapSet(st, dn, Term{store(dom.S, m.S, store(sel(dom.S, m.S), k.S, "true")), dom.Sort})
		fc.heapSet(st, vn, Term{store(val.S, m.S, store(sel(val.S, m.S), k.S, v.S)), val.Sort})
		if _, isMap := mt.Elem().Underlying().(*types.Map); isMap && ks == SString {
			// built-in ghost event: a map stored as a value gets its parent link (once)
			mp := fc.heapGet(st, "MP", arr(SInt, SInt))
			mpk := fc.heapGet(st, "MPK$String", arr(SInt, SString))
			unowned := eq(sel(mp.S, v.S), "0")
			fc.heapSet(st, "MP", Term{store(mp.S, v.S, fmt.Sprintf("(ite %s %s %s)", unowned, m.S, sel(mp.S, v.S))), mp.Sort})
			fc.heapSet(st, "MPK$String", Term{store(mpk.S, v.S, fmt.Sprintf("(ite %s %s %s)", unowned, k.S, sel(mpk.S, v.S))), mpk.Sort})
		}
	case *ssa.MakeMap:
		mt := i.Type().Underlying().(*types.Map)
		dn, _, ks, _ := fc.mapArrs(mt, e.regionOf(i))
		r := fc.newRef(st, "map")
		dom := fc.heapGet(st, dn, arr(SInt, arr(ks, SBool)))
		fc.heapSet(st, dn, Term{store(dom.S, r.S, fmt.Sprintf("((as const %s) false)", arr(ks, SBool))), dom.Sort})
		mp := fc.heapGet(st, "MP", arr(SInt, SInt))
		fc.heapSet(st, "MP", Term{store(mp.S, r.S, "0"), mp.Sort})
		fr.vals[i] = r
	case *ssa.MakeSlice:
		ln := fr.term(i.Len)
		fr.safety("makeslice", fmt.Sprintf("(<= 0 %s)", ln.S), reach, i.Pos(), "make: negative length")
		st := i.Type().Underlying().(*types.Slice)
		if isByte(st.Elem()) {
			v := fc.fresh("mkbytes", SString)
			fc.fact(eq("(str.len "+v.S+")", ln.S))
			// zero bytes
			fc.fact(fmt.Sprintf("(forall ((k Int)) (=> (and (<= 0 k) (< k %s)) (= (str.to_code (str.at %s k)) 0)))", ln.S, v.S))
			fr.vals[i] = v
			return
		}
		es := e.sortOf(st.Elem())
		fr.vals[i] = fc.define("mkslice", Term{fmt.Sprintf("(mkslc ((as const %s) %s) 0 %s)", arr(SInt, es), e.zero(es, st.Elem()).S, ln.S), slc(es)})
	case *ssa.MakeChan:
		if sz, ok := fr.val(i.Size).(Term); ok {
			fr.safety("makechan", fmt.Sprintf("(<= 0 %s)", sz.S), reach, i.Pos(), "make(chan): negative buffer size")
		}
		r := fc.newRef(st, "chan")
		cl := fc.heapGet(st, "CL", arr(SInt, SInt))
		fc.heapSet(st, "CL", Term{store(cl.S, r.S, "0"), cl.Sort})
		cc := fc.heapGet(st, "CC", arr(SInt, SInt))
		fc.heapSet(st, "CC", Term{store(cc.S, r.S, "0"), cc.Sort})
		crv := fc.heapGet(st, "CR", arr(SInt, SInt))
		fc.heapSet(st, "CR", Term{store(crv.S, r.S, "0"), crv.Sort})
		fr.vals[i] = r
	case *ssa.MakeInterface:
		x := fr.val(i.X)
		if xt, ok := x.(Term); ok {
			fr.vals[i] = fc.define(i.Name(), e.box(xt, i.X.Type()))
		} else {
			fr.vals[i] = fc.fresh("iface", SAny)
		}
	case *ssa.MakeClosure:
		cl := &Closure{Fn: i.Fn.(*ssa.Function)}
		for _, b := range i.Bindings {
			cl.Bindings = append(cl.Bindings, fr.val(b))
		}
		fr.vals[i] = cl
		if ct := fc.e.specs.Funcs[fnKey(cl.Fn)]; ct != nil && len(ct.Captures) > 0 {
			// `captures` clauses of the closure's contract: obligations here, where the captured cells
			// are known; they stay true because every captured cell they may mention is written once
			env := &Env{fc: fc, pkg: ct.Pkg, vars: map[string]CVal{}, bound: map[string]CVal{}, st: st, old: st}
			okCells := true
			for k, fv := range cl.Fn.FreeVars {
				if k < len(cl.Bindings) {
					if t, ok := cl.Bindings[k].(Term); ok {
						env.vars[fv.Name()] = CVal{t, fv.Type()}
					}
				}
				mentioned := false
				for _, c := range ct.Captures {
					if regexp.MustCompile(`\b` + regexp.QuoteMeta(fv.Name()) + `\b`).MatchString(c.Src) {
						mentioned = true
					}
				}
				if !mentioned {
					continue // only the captured variables the clauses talk about have to be stable
				}
				if al := cellAlloc(i.Bindings[k]); al == nil || !singleStore(al) || !privateCell(al) {
					okCells = false
				}
			}
			if !okCells {
				fc.unsupported("captures clause of %s: a captured variable is assigned more than once or escapes", fnKey(cl.Fn))
			}
			for idx, c := range ct.Captures {
				t, err := env.evalBool(c.Expr)
				if err != nil {
					fc.unsupported("captures of %s: %v", fnKey(cl.Fn), err)
					continue
				}
				o := fc.oblig("pre", "closure."+sanitizeName(shortKey(ct.Key))+".captures."+strconv.Itoa(idx), t.S, reach, i.Pos(), nil)
				o.Src = c.Src
			}
		}
	case *ssa.ChangeType:
		fr.vals[i] = fr.val(i.X)
	case *ssa.ChangeInterface:
		fr.vals[i] = fr.val(i.X)
	case *ssa.Convert:
		fr.vals[i] = fr.convert(i, reach)
	case *ssa.Extract:
		t, ok := fr.val(i.Tuple).(*Tuple)
		if !ok || i.Index >= len(t.Elems) {
			fc.unsupported("extract from non-tuple %s in %s", i.Tuple.Name(), fr.fn.Name())
			fr.vals[i] = fc.fresh("undef", e.sortOf(i.Type()))
			return
		}
		fr.vals[i] = t.Elems[i.Index]
		if lk, isLk := i.Tuple.(*ssa.Lookup); isLk && i.Index == 0 {
			fr.inheritGuard(i, lk)
		}
	case *ssa.TypeAssert:
		x := fr.term(i.X)
		if _, isIface := i.AssertedType.Underlying().(*types.Interface); isIface {
			// assertion to an interface type: treat as unknown ok / same value
			if i.CommaOk {
				ok := fc.fresh("ta_ok", SBool)
				fr.vals[i] = &Tuple{[]Val{x, ok}}
			} else {
				fr.safety("typeassert", not(eq(x.S, "anil")), reach, i.Pos(), "type assertion on nil interface")
				fr.vals[i] = x
			}
			return
		}
		has := e.hasType(x, i.AssertedType)
		v := fc.define(i.Name(), e.unbox(x, i.AssertedType))
		if i.CommaOk {
			hv := fc.define(i.Name()+"_ok", has)
			zs := e.sortOf(i.AssertedType)
			vv := fc.define(i.Name()+"_v", Term{fmt.Sprintf("(ite %s %s %s)", hv.S, v.S, e.zero(zs, i.AssertedType).S), zs})
			fr.vals[i] = &Tuple{[]Val{vv, hv}}
		} else {
			fr.safety("typeassert", has.S, reach, i.Pos(), "type assertion to "+shortType(i.AssertedType))
			fr.vals[i] = v
		}
	case *ssa.Call:
		fr.vals[i] = fr.call(i, &i.Call, st, reach)
	case *ssa.Defer:
		for _, li := range fr.loops {
			if li.blocks[i.Block()] {
				fc.unsupported("defer inside a loop in %s", fr.fn.Name())
			}
		}
		fr.defers = append(fr.defers, &deferred{guard: reach, call: &i.Call, instr: i, fr: fr})
	case *ssa.RunDefers:
		for k := len(fr.defers) - 1; k >= 0; k-- {
			d := fr.defers[k]
			// the deferred call runs iff its Defer instruction was executed
			pre := st.clone()
			fr.call(d.instr, d.call, st, and(reach, d.guard))
			fr.condMerge(st, pre, d.guard)
		}
	case *ssa.Send:
		ch := fr.term(i.Chan)
		x := fr.term(i.X)
		fr.chanSend(st, ch, x, reach, i.Pos())
	case *ssa.Range:
		x := fr.term(i.X)
		if mt, ok := i.X.Type().Underlying().(*types.Map); ok {
			fr.guardCheck(i.X, false, reach, i.Pos())
			it := &MapIter{Map: x, MapT: mt, Vis: "VIS$" + i.Name(), Region: e.regionOf(i.X)}
			ks := e.sortOf(mt.Key())
			st.heap[it.Vis] = Term{fmt.Sprintf("((as const %s) false)", arr(ks, SBool)), arr(ks, SBool)}
			fr.vals[i] = it
		} else {
			it := &MapIter{Str: true, StrV: x, Pos: "SPOS$" + i.Name()}
			st.heap[it.Pos] = Term{"0", SInt}
			fr.vals[i] = it
		}
	case *ssa.Next:
		fr.execNext(i, st, reach)
	case *ssa.Go:
		// producer hand-off: `go f(args)` where f is under contract. The spawned function is verified
		// sequentially on its own; here only its precondition is checked. Its effects are not visible
		// to the spawning function (which must not touch the handed-over state afterwards: assumed).
		if callee := i.Call.StaticCallee(); callee != nil && !i.Call.IsInvoke() {
			if ct := fc.e.specs.Funcs[fnKey(callee)]; ct != nil && fc.c != nil && fc.c.Opts["go-handoff"] != "" {
				var args []Val
				for _, a := range i.Call.Args {
					args = append(args, fr.val(a))
				}
				env := &Env{fc: fc, pkg: ct.Pkg, vars: map[string]CVal{}, bound: map[string]CVal{}, st: st, old: st}
				for k, p := range callee.Params {
					if t, ok := args[k].(Term); ok {
						env.vars[p.Name()] = CVal{t, p.Type()}
					}
				}
				for idx, cl := range ct.Requires {
					t, err := env.evalBool(cl.Expr)
					if err != nil {
						fc.unsupported("go %s: %v", callee.Name(), err)
						continue
					}
					o := fc.oblig("pre", "go."+sanitizeName(shortKey(ct.Key))+".pre."+strconv.Itoa(idx), t.S, reach, i.Pos(), nil)
					o.Src = cl.Src
				}
				fc.assumes = append(fc.assumes, "goroutine hand-off in "+fc.short+": "+shortKey(ct.Key)+" is verified as a sequential function; the spawning function does not access the handed-over object afterwards (not checked); scheduling and blocking are not modelled")
				fc.callees[ct.Key] = true
				return
			}
		}
		// fork/join under `opt go-sequential`: the spawned call is executed as a synchronous call at the
		// go statement (each goroutine runs to completion when it is started). This is ONE schedule;
		// it is claimed only for functions whose goroutines share nothing but lock-protected state and
		// are joined (WaitGroup) before their effects are read - stated as an assumption.
		if fc.c != nil && fc.c.Opts["go-sequential"] != "" {
			fc.assumes = append(fc.assumes, "fork/join in "+fc.short+": every `go` statement is executed as a synchronous call (one schedule: each goroutine runs to completion when started; a goroutine that consumes a channel - it calls a function whose contract says `opt run-at-join` - runs at the next WaitGroup.Wait instead, when the channel is complete); sound for the stated postconditions only if the goroutines share nothing but mutex-protected state and channels and are joined before their effects are read (not checked); blocking and scheduling are not modelled")
			if fr.consumerGoroutine(&i.Call) {
				fr.pendingGo = append(fr.pendingGo, i)
				return
			}
			fr.call(i, &i.Call, st, reach)
			return
		}
		fc.unsupported("go statement in %s (goroutines are outside the proof subset)", fr.fn.Name())
	case *ssa.Select:
		// select: one of the cases is taken, which one is not determined (for a non-blocking select
		// also none: index -1). A send case appends to the channel's log when taken; a receive case
		// yields an unconstrained value (the channels selected on here are cancellation channels).
		n := len(i.States)
		idx := fc.fresh("select_idx", SInt)
		lo := "0"
		if !i.Blocking {
			lo = "(- 1)"
		}
		fc.fact(fmt.Sprintf("(and (<= %s %s) (< %s %d))", lo, idx.S, idx.S, n))
		out := []Val{idx, fc.fresh("select_recvok", SBool)}
		for k, s := range i.States {
			taken := eq(idx.S, strconv.Itoa(k))
			if s.Dir == types.SendOnly {
				pre := st.clone()
				fr.chanSend(st, fr.term(s.Chan), fr.term(s.Send), and(reach, taken), i.Pos())
				fr.condMerge(st, pre, taken)
			} else {
				ct := s.Chan.Type().Underlying().(*types.Chan)
				es := fc.e.sortOf(ct.Elem())
				v := fc.fresh("select_recv", es)
				if es == SInt && isRefType(ct.Elem()) {
					fc.assumeAllocated(st, v)
				}
				out = append(out, v)
			}
		}
		fr.vals[i] = &Tuple{out}
	default:
		fc.unsupported("instruction %T in %s", in, fr.fn.Name())
	}
}

func (fr *frame) storeRefNoFrame(st *State, ref Term, elemT types.Type, v Term) {
	fc := fr.fc
	sn := v.Sort
	n := derefArrName(elemT)
	a := fc.heapGet(st, n, arr(SInt, sn))
	fc.heapSet(st, n, Term{store(a.S, ref.S, v.S), a.Sort})
}

// condMerge: st := guard ? st : pre
func (fr *frame) condMerge(st, pre *State, guard string) {
	fc := fr.fc
	if guard == "true" {
		return
	}
	for k, v := range st.heap {
		pv, ok := pre.heap[k]
		if !ok {
			pv = fc.heapGet(pre, k, v.Sort)
		}
		if pv.S == v.S {
			continue
		}
		st.heap[k] = fc.define(k+"_c", Term{fmt.Sprintf("(ite %s %s %s)", guard, v.S, pv.S), v.Sort})
	}
}

func (fr *frame) chanSend(st *State, ch, x Term, reach string, pos token.Pos) {
	fc := fr.fc
	fr.safety("chan.send-nil", not(eq(ch.S, "0")), reach, pos, "send on nil channel blocks forever")
	cc := fc.heapGet(st, "CC", arr(SInt, SInt))
	fr.safety("chan.send-closed", eq(sel(cc.S, ch.S), "0"), reach, pos, "send on closed channel")
	cl := fc.heapGet(st, "CL", arr(SInt, SInt))
	on := "CO$" + sanitize(x.Sort)
	co := fc.heapGet(st, on, arr(SInt, arr(SInt, x.Sort)))
	fr.frameCheck(st, "CL", ch, reach, pos)
	n := sel(cl.S, ch.S)
	fc.heapSet(st, on, Term{store(co.S, ch.S, store(sel(co.S, ch.S), n, x.S)), co.Sort})
	fc.heapSet(st, "CL", Term{store(cl.S, ch.S, "(+ "+n+" 1)"), cl.Sort})
}

func (fr *frame) chanClose(st *State, ch Term, reach string, pos token.Pos) {
	fc := fr.fc
	fr.safety("chan.close-nil", not(eq(ch.S, "0")), reach, pos, "close of nil channel")
	cc := fc.heapGet(st, "CC", arr(SInt, SInt))
	fr.safety("chan.close-twice", eq(sel(cc.S, ch.S), "0"), reach, pos, "close of closed channel")
	fr.frameCheck(st, "CC", ch, reach, pos)
	fc.heapSet(st, "CC", Term{store(cc.S, ch.S, "(+ "+sel(cc.S, ch.S)+" 1)"), cc.Sort})
}

func (fr *frame) execSlice(i *ssa.Slice, st *State, reach string) {
	fc := fr.fc
	xv := fr.val(i.X)
	if cell, ok := xv.(*ArrCell); ok {
		if i.Low == nil && i.High == nil {
			if isByte(cell.ElemT) && len(cell.Elems) == 0 {
				fr.vals[i] = Term{"\"\"", SString}
				return
			}
			if isByte(cell.ElemT) && cell.Fresh {
				// make([]byte, n) with constant n: n zero bytes
				fr.vals[i] = Term{smtString(strings.Repeat("\x00", len(cell.Elems))), SString}
				return
			}
			// varargs / composite literal: the cell is filled before it is sliced
			fr.vals[i] = &VarArgSlice{Elems: cell.Elems}
			return
		}
		if isByte(cell.ElemT) && cell.Fresh && i.Low == nil {
			if k, ok := i.High.(*ssa.Const); ok && int(k.Int64()) <= len(cell.Elems) {
				fr.vals[i] = Term{smtString(strings.Repeat("\x00", int(k.Int64()))), SString}
				return
			}
		}
		fc.unsupported("partial slice of local array in %s", fr.fn.Name())
		return
	}
	x, ok := xv.(Term)
	if !ok {
		fc.unsupported("slice of %T in %s", xv, fr.fn.Name())
		fr.vals[i] = fc.fresh("undef", fc.e.sortOf(i.Type()))
		return
	}
	if i.Max != nil {
		fc.unsupported("3-index slice in %s", fr.fn.Name())
	}
	var lo, hi Term
	lo = Term{"0", SInt}
	if i.Low != nil {
		lo = fr.term(i.Low)
	}
	if x.Sort == SString {
		hi = Term{"(str.len " + x.S + ")", SInt}
		if i.High != nil {
			hi = fr.term(i.High)
		}
		fr.safety("slice", fmt.Sprintf("(and (<= 0 %s) (<= %s %s) (<= %s (str.len %s)))", lo.S, lo.S, hi.S, hi.S, x.S), reach, i.Pos(), "string slice bounds in range")
		fr.vals[i] = fc.define(i.Name(), Term{fmt.Sprintf("(str.substr %s %s (- %s %s))", x.S, lo.S, hi.S, lo.S), SString})
		return
	}
	if isSlc(x.Sort) {
		hi = Term{"(slen " + x.S + ")", SInt}
		if i.High != nil {
			hi = fr.term(i.High)
		}
		// capacity is not modelled: slicing beyond len is reported (it is legal Go up to cap)
		fr.safety("slice", fmt.Sprintf("(and (<= 0 %s) (<= %s %s) (<= %s (slen %s)))", lo.S, lo.S, hi.S, hi.S, x.S), reach, i.Pos(), "slice bounds within length (capacity not modelled)")
		fr.vals[i] = fc.define(i.Name(), fc.slcSub(x, lo.S, hi.S))
		return
	}
	// pointer to array (e.g. *[48]byte): unsupported
	fc.unsupported("slice of %s (sort %s) in %s", i.X.Name(), x.Sort, fr.fn.Name())
	fr.vals[i] = fc.fresh("undef", fc.e.sortOf(i.Type()))
}

func (fr *frame) execUnOp(i *ssa.UnOp, st *State, reach string) {
	fc := fr.fc
	switch i.Op {
	case token.MUL:
		p := fr.val(i.X)
		switch pt := p.(type) {
		case *PtrField:
			a := fc.heapGet(st, pt.Arr, arr(SInt, pt.Sort))
			v := Term{sel(a.S, pt.Base.S), pt.Sort}
			if pt.StructT != nil && len(fc.e.specs.FieldInvs) > 0 && !strings.Contains(pt.Name, ".") {
				fc.assumeFieldInv(st, pt.Base, pt.StructT, pt.Name)
			}
			if pt.Sort == SInt && pt.FieldT != nil && isRefType(pt.FieldT) {
				v = fc.define(i.Name(), v)
				fc.assumeAllocatedFrom(st, v, a)
			}
			if isSlc(pt.Sort) {
				v = fc.define(i.Name(), v)
				fc.fact(fmt.Sprintf("(and (<= 0 (soff %s)) (<= 0 (slen %s)))", v.S, v.S))
			}
			fr.noteGuarded(i, pt)
			fr.vals[i] = v
		case *PtrArrElem:
			if pt.Field != "" {
				if cur, ok := pt.Cell.Elems[pt.Idx].(Term); ok {
					fr.vals[i] = Term{fmt.Sprintf("(%s$%s %s)", cur.Sort, pt.Field, cur.S), fc.e.sortOf(pt.FieldT)}
					return
				}
				fc.unsupported("load of a field of a local array element without symbolic value in %s", fr.fn.Name())
				fr.vals[i] = fc.fresh("undef", fc.e.sortOf(i.Type()))
				return
			}
			fr.vals[i] = pt.Cell.Elems[pt.Idx]
		case *PtrSliceElem:
			v := fc.slcAt(pt.Slice, pt.Idx.S)
			if pt.Field != "" {
				fr.vals[i] = Term{fmt.Sprintf("(%s$%s %s)", v.Sort, pt.Field, v.S), fc.e.sortOf(pt.FieldT)}
				return
			}
			if v.Sort == SInt && pt.ElemT != nil && isRefType(pt.ElemT) {
				v = fc.define(i.Name(), v)
				fc.assumeAllocated(st, v)
			}
			fr.vals[i] = v
		case Term:
			elemT := ptrElem(i.X.Type())
			if g, isGlobal := i.X.(*ssa.Global); isGlobal {
				if fc.isStable(g) {
					v := fc.globalVal(g)
					if v.Sort == SInt && isRefType(elemT) {
						fc.assumeAllocated(st, v)
					}
					fr.vals[i] = v
					return
				}
			} else {
				fr.safety("nil", not(eq(pt.S, "0")), reach, i.Pos(), "nil pointer dereference")
			}
			if cl, ok := fc.cellClosure[pt.S]; ok {
				// the cell of a local variable that holds one closure for its whole life
				fr.vals[i] = cl
				return
			}
			fr.vals[i] = fr.loadRef(st, pt, elemT)
		default:
			fc.unsupported("load through %T in %s", p, fr.fn.Name())
			fr.vals[i] = fc.fresh("undef", fc.e.sortOf(i.Type()))
		}
	case token.NOT:
		fr.vals[i] = Term{not(fr.term(i.X).S), SBool}
	case token.SUB:
		x := fr.term(i.X)
		if x.Sort == SF64 {
			fc.declareFun("f64$neg", []string{SF64}, SF64)
			fr.vals[i] = Term{"(f64$neg " + x.S + ")", SF64}
			return
		}
		fr.vals[i] = Term{"(- " + x.S + ")", SInt}
	case token.ARROW:
		// receive: arbitrary element, constrained only by type
		ch := fr.term(i.X)
		_ = ch
		ct := i.X.Type().Underlying().(*types.Chan)
		es := fc.e.sortOf(ct.Elem())
		v := fc.fresh("recv", es)
		if es == SInt && isRefType(ct.Elem()) {
			fc.assumeAllocated(st, v)
		}
		if fc.c != nil && fc.c.Opts["go-sequential"] != "" && len(fr.pendingGo) > 0 {
			// a receive from a channel that a deferred goroutine sends on is a join: the goroutine runs now
			var keep []*ssa.Go
			for _, g := range fr.pendingGo {
				if g.Block().Dominates(i.Block()) && sendsOn(g, chanCell(i.X)) {
					fr.call(g, &g.Call, st, reach)
				} else {
					keep = append(keep, g)
				}
			}
			fr.pendingGo = keep
		}
		if fc.c != nil && fc.c.Opts["go-sequential"] != "" {
			// fork/join model: the goroutines that send have already run, so a receive takes the next
			// element of the channel's log (FIFO); an exhausted closed channel yields the zero value and
			// ok=false; an exhausted open channel would block: the value is unconstrained
			cr := fc.heapGet(st, "CR", arr(SInt, SInt))
			cl := fc.heapGet(st, "CL", arr(SInt, SInt))
			cc := fc.heapGet(st, "CC", arr(SInt, SInt))
			co := fc.heapGet(st, "CO$"+sanitize(es), arr(SInt, arr(SInt, es)))
			n := sel(cr.S, ch.S)
			avail := fc.define("recv_avail", Term{fmt.Sprintf("(< %s %s)", n, sel(cl.S, ch.S)), SBool})
			closed := fmt.Sprintf("(> %s 0)", sel(cc.S, ch.S))
			zero := fc.e.zero(es, ct.Elem())
			val := fc.define("recv_v", Term{fmt.Sprintf("(ite %s %s (ite %s %s %s))", avail.S, sel(sel(co.S, ch.S), n), closed, zero.S, v.S), es})
			okv := fc.define("recv_ok", Term{fmt.Sprintf("(ite %s true (ite %s false %s))", avail.S, closed, fc.fresh("recv_blocked", SBool).S), SBool})
			fc.heapSet(st, "CR", Term{store(cr.S, ch.S, fmt.Sprintf("(ite %s (+ %s 1) %s)", avail.S, n, n)), cr.Sort})
			if i.CommaOk {
				fr.vals[i] = &Tuple{[]Val{val, okv}}
			} else {
				fr.vals[i] = val
			}
			return
		}
		if i.CommaOk {
			fr.vals[i] = &Tuple{[]Val{v, fc.fresh("recv_ok", SBool)}}
		} else {
			fr.vals[i] = v
		}
	default:
		fc.unsupported("unary op %s in %s", i.Op, fr.fn.Name())
		fr.vals[i] = fc.fresh("undef", fc.e.sortOf(i.Type()))
	}
}

func (fr *frame) execStore(i *ssa.Store, st *State, reach string) {
	fc := fr.fc
	p := fr.val(i.Addr)
	switch pt := p.(type) {
	case *PtrField:
		v := fr.term(i.Val)
		a := fc.heapGet(st, pt.Arr, arr(SInt, pt.Sort))
		fr.frameCheck(st, pt.Arr, pt.Base, reach, i.Pos())
		fc.heapSet(st, pt.Arr, Term{store(a.S, pt.Base.S, v.S), a.Sort})
	case *PtrArrElem:
		if pt.Field != "" {
			cur, ok := pt.Cell.Elems[pt.Idx].(Term)
			si := fc.e.structs[typeKey(pt.StructT)]
			if !ok || si == nil {
				fc.unsupported("store to a field of a local array element in %s", fr.fn.Name())
				return
			}
			v := fr.term(i.Val)
			var fs []string
			for _, f := range si.fields {
				if f.Name() == pt.Field {
					fs = append(fs, v.S)
				} else {
					fs = append(fs, fmt.Sprintf("(%s$%s %s)", si.name, f.Name(), cur.S))
				}
			}
			pt.Cell.Elems[pt.Idx] = fc.define("elemfield", Term{"(mk" + si.name + " " + strings.Join(fs, " ") + ")", si.name})
			pt.Cell.Fresh = false
			return
		}
		pt.Cell.Elems[pt.Idx] = fr.val(i.Val)
		pt.Cell.Fresh = false
	case *PtrSliceElem:
		fr.storeSliceElem(i, pt, st, reach)
	case Term:
		elemT := ptrElem(i.Addr.Type())
		if _, isGlobal := i.Addr.(*ssa.Global); !isGlobal {
			fr.safety("nil", not(eq(pt.S, "0")), reach, i.Pos(), "nil pointer dereference (store)")
		}
		if cl, isCl := fr.val(i.Val).(*Closure); isCl {
			if al, isAlloc := i.Addr.(*ssa.Alloc); isAlloc && singleStore(al) && privateCell(al) {
				// `f := func...` captured by other closures: the cell is written once, with this closure
				fc.cellClosure[pt.S] = cl
			}
		}
		fr.storeRef(st, pt, elemT, fr.term(i.Val), reach, i.Pos())
	default:
		fc.unsupported("store through %T in %s", p, fr.fn.Name())
	}
}

func (fr *frame) execNext(i *ssa.Next, st *State, reach string) {
	fc := fr.fc
	it, ok := fr.val(i.Iter).(*MapIter)
	if !ok {
		fc.unsupported("next on unknown iterator in %s", fr.fn.Name())
		return
	}
	if it.Str {
		// string range: position ghost, decoded rune via utf8 spec functions
		pos := fc.heapGet(st, it.Pos, SInt)
		fc.declareFun("rune$at", []string{SString, SInt}, SInt)
		fc.declareFun("rune$width", []string{SString, SInt}, SInt)
		okT := fc.define("next_ok", Term{fmt.Sprintf("(< %s (str.len %s))", pos.S, it.StrV.S), SBool})
		w := fmt.Sprintf("(rune$width %s %s)", it.StrV.S, pos.S)
		fc.fact(fmt.Sprintf("(=> %s (and (<= 1 %s) (<= %s 4) (<= (+ %s %s) (str.len %s))))", okT.S, w, w, pos.S, w, it.StrV.S))
		r := fc.define("next_rune", Term{fmt.Sprintf("(rune$at %s %s)", it.StrV.S, pos.S), SInt})
		fc.fact(fmt.Sprintf("(and (<= 0 %s) (<= %s 1114111))", r.S, r.S))
		fr.vals[i] = &Tuple{[]Val{okT, pos, r}}
		st.heap[it.Pos] = fc.define("spos", Term{fmt.Sprintf("(ite %s (+ %s %s) %s)", okT.S, pos.S, w, pos.S), SInt})
		return
	}
	dn, vn, ks, vs := fc.mapArrs(it.MapT, it.Region)
	dom := fc.heapGet(st, dn, arr(SInt, arr(ks, SBool)))
	val := fc.heapGet(st, vn, arr(SInt, arr(ks, vs)))
	vis := fc.heapGet(st, it.Vis, arr(ks, SBool))
	okT := fc.fresh("next_ok", SBool)
	k := fc.fresh("next_k", ks)
	d := sel(dom.S, it.Map.S)
	fc.fact(fmt.Sprintf("(=> %s (and (select %s %s) (not (select %s %s))))", okT.S, d, k.S, vis.S, k.S))
	fc.fact(fmt.Sprintf("(=> (not %s) (forall ((kk %s)) (! (=> (select %s kk) (select %s kk)) :pattern ((select %s kk)))))", okT.S, ks, d, vis.S, d))
	v := fc.define("next_v", Term{sel(sel(val.S, it.Map.S), k.S), vs})
	if vs == SInt && isRefType(it.MapT.Elem()) {
		fc.assumeAllocatedFrom(st, v, val)
	}
	st.heap[it.Vis] = fc.define("vis", Term{fmt.Sprintf("(ite %s %s %s)", okT.S, store(vis.S, k.S, "true"), vis.S), vis.Sort})
	fr.vals[i] = &Tuple{[]Val{okT, k, v}}
}

func (fc *FnCtx) declareFun(name string, args []string, res string) {
	if fc.declSet[name] {
		return
	}
	fc.declSet[name] = true
	s := "(declare-fun " + name + " ("
	for i, a := range args {
		if i > 0 {
			s += " "
		}
		s += a
	}
	s += ") " + res + ")"
	fc.decls = append(fc.decls, s)
}

func (fr *frame) convert(i *ssa.Convert, reach string) Val {
	fc := fr.fc
	x := fr.term(i.X)
	from, to := i.X.Type().Underlying(), i.Type().Underlying()
	fs, ts := fc.e.sortOf(from), fc.e.sortOf(to)
	if fs == ts {
		if fs == SInt {
			// integer narrowing
			fb, fok := from.(*types.Basic)
			tb, tok := to.(*types.Basic)
			if fok && tok {
				if tb.Kind() == types.Uint8 && fb.Kind() != types.Uint8 {
					return fc.define(i.Name(), Term{"(mod " + x.S + " 256)", SInt})
				}
				if tb.Kind() == types.Uint64 || tb.Kind() == types.Uint || tb.Kind() == types.Uint32 || tb.Kind() == types.Uint16 {
					if fb.Info()&types.IsUnsigned == 0 {
						fc.assumes = append(fc.assumes, "conversion of signed to unsigned integer treated as identity (mathematical integers)")
					}
				}
			}
		}
		return x
	}
	if fs == SInt && ts == SString {
		// string(rune)
		fc.declareFun("rune$str", []string{SInt}, SString)
		v := fc.define(i.Name(), Term{"(rune$str " + x.S + ")", SString})
		fc.fact(fmt.Sprintf("(and (<= 1 (str.len %s)) (<= (str.len %s) 4))", v.S, v.S))
		fc.fact(fmt.Sprintf("(=> (and (<= 0 %s) (< %s 128)) (= %s (str.from_code %s)))", x.S, x.S, v.S, x.S))
		return v
	}
	if fs == SInt && ts == SF64 {
		fc.declareFun("f64$fromint", []string{SInt}, SF64)
		return Term{"(f64$fromint " + x.S + ")", SF64}
	}
	if fs == SF64 && ts == SInt {
		fc.declareFun("f64$toint", []string{SF64}, SInt)
		return Term{"(f64$toint " + x.S + ")", SInt}
	}
	if isSlc(fs) && ts == SString || fs == SString && isSlc(ts) {
		fc.unsupported("conversion between %s and %s", fs, ts)
	}
	fc.unsupported("conversion %s -> %s in %s", fs, ts, fr.fn.Name())
	return fc.fresh("conv", ts)
}

func (fr *frame) binop(i *ssa.BinOp, reach string) Val {
	fc := fr.fc
	x, y := fr.term(i.X), fr.term(i.Y)
	op := i.Op
	s := x.Sort
	cmp := func(o string) Val { return Term{"(" + o + " " + x.S + " " + y.S + ")", SBool} }
	switch op {
	case token.EQL:
		if x.Sort != y.Sort {
			// comparison of interface with concrete etc.
			if x.Sort == SAny {
				y = fc.e.box(y, i.Y.Type())
			} else if y.Sort == SAny {
				x = fc.e.box(x, i.X.Type())
			}
		}
		return Term{eq(x.S, y.S), SBool}
	case token.NEQ:
		if x.Sort != y.Sort {
			if x.Sort == SAny {
				y = fc.e.box(y, i.Y.Type())
			} else if y.Sort == SAny {
				x = fc.e.box(x, i.X.Type())
			}
		}
		return Term{not(eq(x.S, y.S)), SBool}
	}
	switch s {
	case SInt:
		switch op {
		case token.ADD:
			return fr.arith(i, "(+ "+x.S+" "+y.S+")", reach)
		case token.SUB:
			return fr.arith(i, "(- "+x.S+" "+y.S+")", reach)
		case token.MUL:
			return fr.arith(i, fc.mulTerm(x.S, y.S), reach)
		case token.QUO:
			fr.safety("divzero", not(eq(y.S, "0")), reach, i.Pos(), "integer division by zero")
			// Go truncates toward zero
			return fc.define(i.Name(), Term{fmt.Sprintf("(ite (>= %s 0) (div %s %s) (- (div (- %s) %s)))", x.S, x.S, y.S, x.S, y.S), SInt})
		case token.REM:
			fr.safety("divzero", not(eq(y.S, "0")), reach, i.Pos(), "integer modulo by zero")
			return fc.define(i.Name(), Term{fmt.Sprintf("(ite (>= %s 0) (mod %s (abs %s)) (- (mod (- %s) (abs %s))))", x.S, x.S, y.S, x.S, y.S), SInt})
		case token.LSS:
			return cmp("<")
		case token.LEQ:
			return cmp("<=")
		case token.GTR:
			return cmp(">")
		case token.GEQ:
			return cmp(">=")
		}
	case SBool:
		switch op {
		case token.AND, token.LAND:
			return Term{and(x.S, y.S), SBool}
		case token.OR, token.LOR:
			return Term{or(x.S, y.S), SBool}
		}
	case SString:
		switch op {
		case token.ADD:
			return fc.define(i.Name(), Term{"(str.++ " + x.S + " " + y.S + ")", SString})
		case token.LSS:
			return Term{fc.strLess(x.S, y.S), SBool}
		case token.LEQ:
			return Term{not(fc.strLess(y.S, x.S)), SBool}
		case token.GTR:
			return Term{fc.strLess(y.S, x.S), SBool}
		case token.GEQ:
			return Term{not(fc.strLess(x.S, y.S)), SBool}
		}
	case SF64:
		name := map[token.Token]string{token.ADD: "f64$add", token.SUB: "f64$sub", token.MUL: "f64$mul", token.QUO: "f64$div"}[op]
		if name != "" {
			fc.declareFun(name, []string{SF64, SF64}, SF64)
			return Term{"(" + name + " " + x.S + " " + y.S + ")", SF64}
		}
		cn := map[token.Token]string{token.LSS: "f64$lt", token.LEQ: "f64$le"}[op]
		if cn != "" {
			fc.declareFun(cn, []string{SF64, SF64}, SBool)
			return Term{"(" + cn + " " + x.S + " " + y.S + ")", SBool}
		}
		cn = map[token.Token]string{token.GTR: "f64$lt", token.GEQ: "f64$le"}[op]
		if cn != "" {
			fc.declareFun(cn, []string{SF64, SF64}, SBool)
			return Term{"(" + cn + " " + y.S + " " + x.S + ")", SBool}
		}
	}
	fc.unsupported("binary op %s on sort %s in %s", op, s, fr.fn.Name())
	return fc.fresh("undef", fc.e.sortOf(i.Type()))
}

func intRange(t types.Type) (lo, hi string, ok bool) {
	b, isB := t.Underlying().(*types.Basic)
	if !isB {
		return
	}
	switch b.Kind() {
	case types.Int, types.Int64:
		return "(- 9223372036854775808)", "9223372036854775807", true
	case types.Int32:
		return "(- 2147483648)", "2147483647", true
	case types.Uint8:
		return "0", "255", true
	case types.Uint64, types.Uint:
		return "0", "18446744073709551615", true
	}
	return
}

func (fr *frame) arith(i *ssa.BinOp, t string, reach string) Val {
	fc := fr.fc
	v := fc.define(i.Name(), Term{t, SInt})
	if fc.c != nil && fc.c.Overflow {
		if lo, hi, ok := intRange(i.Type()); ok {
			o := fc.oblig("safety", "safety.overflow", fmt.Sprintf("(and (<= %s %s) (<= %s %s))", lo, v.S, v.S, hi), reach, i.Pos(), nil)
			o.Src = "integer " + i.Op.String() + " stays in range of " + shortType(i.Type())
		}
	}
	return v
}

var _ = strconv.Itoa

// slcAt: element j of a slice value, through a declared function so that quantifier patterns over
// slice elements contain no arithmetic.
func (fc *FnCtx) slcAt(s Term, j string) Term {
	es := sortArgs(s.Sort)[0]
	name := "slcat$" + sanitize(es)
	if !fc.declSet[name] {
		fc.declSet[name] = true
		fc.decls = append(fc.decls, fmt.Sprintf("(declare-fun %s (%s Int) %s)", name, s.Sort, es))
		fc.decls = append(fc.decls, fmt.Sprintf("(assert (forall ((s %s) (j Int)) (! (= (%s s j) (select (sarr s) (+ (soff s) j))) :pattern ((%s s j)))))", s.Sort, name, name))
	}
	return Term{fmt.Sprintf("(%s %s %s)", name, s.S, j), es}
}

// storeRefNoFrameAny: initialise a freshly allocated object of type elemT with value v.
func (fr *frame) storeRefNoFrameAny(st *State, ref Term, elemT types.Type, v Term) {
	fc := fr.fc
	if _, ok := fr.structFields(elemT); ok && !isTimeType(elemT) {
		sn := fc.e.sortOf(elemT)
		si := fc.e.structs[typeKey(elemT)]
		for i, f := range si.fields {
			n := fieldArrName(elemT, f.Name())
			a := fc.heapGet(st, n, arr(SInt, si.sorts[i]))
			fc.heapSet(st, n, Term{store(a.S, ref.S, fmt.Sprintf("(%s$%s %s)", sn, f.Name(), v.S)), a.Sort})
		}
		return
	}
	fr.storeRefNoFrame(st, ref, elemT, v)
}

// storeSliceElem: s[i] = v. Slices are values in this model (backing array, offset, length), so an
// in-place element store is modelled as an update of the location the slice value was loaded from
// (`x.f[i] = v`, `(*p)[i] = v`), or - for a slice made in the same basic block - as a rebinding of
// that value. Other slice values sharing the backing array do not see the write: aliasing of
// backing arrays is not modelled (listed as an assumption wherever this is used).
func (fr *frame) storeSliceElem(i *ssa.Store, pt *PtrSliceElem, st *State, reach string) {
	fc := fr.fc
	if pt.Src == nil {
		fc.unsupported("in-place store to a slice element of unknown origin in %s", fr.fn.Name())
		return
	}
	v := fr.term(i.Val)
	s := pt.Slice
	if pt.Field != "" {
		// s[i].f = v: the element with that one field replaced
		si := fc.e.structs[typeKey(pt.ElemT)]
		if si == nil {
			fc.unsupported("in-place store to a field of a slice element of non-struct type in %s", fr.fn.Name())
			return
		}
		cur := fc.slcAt(s, pt.Idx.S)
		var fs []string
		for _, f := range si.fields {
			if f.Name() == pt.Field {
				fs = append(fs, v.S)
			} else {
				fs = append(fs, fmt.Sprintf("(%s$%s %s)", si.name, f.Name(), cur.S))
			}
		}
		v = fc.define("elemfield", Term{"(mk" + si.name + " " + strings.Join(fs, " ") + ")", si.name})
	}
	nv := fc.define("elemstore", Term{fmt.Sprintf("(mkslc (store (sarr %s) (+ (soff %s) %s) %s) (soff %s) (slen %s))", s.S, s.S, pt.Idx.S, v.S, s.S, s.S), s.Sort})
	note := "in-place element store s[i] = v is an update of the location the slice was loaded from; other slice values sharing the backing array do not see it (aliasing of backing arrays is not modelled)"
	switch src := pt.Src.(type) {
	case *ssa.UnOp:
		if src.Op != token.MUL {
			break
		}
		switch at := fr.val(src.X).(type) {
		case *PtrField:
			a := fc.heapGet(st, at.Arr, arr(SInt, at.Sort))
			o := fc.oblig("safety", "safety.slice-store", eq(sel(a.S, at.Base.S), s.S), reach, i.Pos(), nil)
			o.Src = "the slice header was not replaced between its load and the element store"
			fr.frameCheck(st, at.Arr, at.Base, reach, i.Pos())
			fc.heapSet(st, at.Arr, Term{store(a.S, at.Base.S, nv.S), a.Sort})
			fc.assumes = append(fc.assumes, note)
			return
		case Term:
			elemT := ptrElem(src.X.Type())
			cur, ok := fr.loadRef(st, at, elemT).(Term)
			if ok {
				o := fc.oblig("safety", "safety.slice-store", eq(cur.S, s.S), reach, i.Pos(), nil)
				o.Src = "the slice header was not replaced between its load and the element store"
				fr.storeRef(st, at, elemT, nv, reach, i.Pos())
				fc.assumes = append(fc.assumes, note)
				return
			}
		}
	case *ssa.MakeSlice:
		if src.Block() == i.Block() {
			fr.vals[src] = nv
			fc.assumes = append(fc.assumes, note)
			return
		}
	}
	fc.unsupported("in-place store to an element of a slice that is neither loaded from a location nor made in the same block in %s", fr.fn.Name())
}

// slcSub: s[lo:hi] through a declared function, so that the element view
// s[lo:hi][k] == s[lo+k] is available to quantifier instantiation (it puts the term s[lo+k] on the table).
func (fc *FnCtx) slcSub(s Term, lo, hi string) Term {
	es := sortArgs(s.Sort)[0]
	name := "slcsub$" + sanitize(es)
	if !fc.declSet[name] {
		at := fc.slcAt(Term{"s", s.Sort}, "(+ lo k)") // declares slcat
		fc.declSet[name] = true
		fc.decls = append(fc.decls, fmt.Sprintf("(declare-fun %s (%s Int Int) %s)", name, s.Sort, s.Sort))
		fc.decls = append(fc.decls, fmt.Sprintf("(assert (forall ((s %s) (lo Int) (hi Int)) (! (= (%s s lo hi) (mkslc (sarr s) (+ (soff s) lo) (- hi lo))) :pattern ((%s s lo hi)))))", s.Sort, name, name))
		sub := fmt.Sprintf("(%s s lo hi)", name)
		fc.decls = append(fc.decls, fmt.Sprintf("(assert (forall ((s %s) (lo Int) (hi Int) (k Int)) (! (= %s %s) :pattern (%s))))", s.Sort, fc.slcAt(Term{sub, s.Sort}, "k").S, at.S, fc.slcAt(Term{sub, s.Sort}, "k").S))
	}
	return Term{fmt.Sprintf("(%s %s %s %s)", name, s.S, lo, hi), s.Sort}
}

func isNumeral(s string) bool {
	if s == "" {
		return false
	}
	if strings.HasPrefix(s, "(- ") && strings.HasSuffix(s, ")") {
		s = s[3 : len(s)-1]
	}
	for _, c := range s {
		if c < '0' || c > '9' {
			return false
		}
	}
	return true
}

// mulTerm: a product. A product of two non-constant terms goes through the declared function mul$,
// defined to be the product: quantifier patterns can then mention it (E-matching on arithmetic
// terms is unreliable), while the arithmetic solver still sees a multiplication.
func (fc *FnCtx) mulTerm(a, b string) string {
	if isNumeral(a) || isNumeral(b) {
		return "(* " + a + " " + b + ")"
	}
	if !fc.declSet["mul$"] {
		fc.declSet["mul$"] = true
		fc.decls = append(fc.decls, "(declare-fun mul$ (Int Int) Int)")
		fc.decls = append(fc.decls, "(assert (forall ((a Int) (b Int)) (! (= (mul$ a b) (* a b)) :pattern ((mul$ a b)))))")
	}
	return "(mul$ " + a + " " + b + ")"
}

// strLess: lexicographic a < b on byte strings through a declared function defined to be str.<
// (congruence then needs no string reasoning; the order itself is still str.<, a total order, so
// a <= b is written not (b < a)).
func (fc *FnCtx) strLess(a, b string) string {
	if fc.opaque() {
		return "(str.< " + a + " " + b + ")"
	}
	if !fc.declSet["strlt$"] {
		fc.declSet["strlt$"] = true
		fc.decls = append(fc.decls, "(declare-fun strlt$ (String String) Bool)")
		fc.decls = append(fc.decls, "(assert (forall ((a String) (b String)) (! (= (strlt$ a b) (str.< a b)) :pattern ((strlt$ a b)))))")
	}
	return "(strlt$ " + a + " " + b + ")"
}


// singleStore: the cell is the target of exactly one store instruction.
func singleStore(a *ssa.Alloc) bool {
	n := 0
	if a.Referrers() == nil {
		return false
	}
	for _, r := range *a.Referrers() {
		if st, ok := r.(*ssa.Store); ok && st.Addr == a {
			n++
		}
	}
	return n == 1
}


// chanCell: the variable a channel value is read from (the captured cell), or the value itself.
func chanCell(v ssa.Value) ssa.Value {
	if u, ok := v.(*ssa.UnOp); ok && u.Op == token.MUL {
		return u.X
	}
	return v
}

// sendsOn: the function literal spawned by g sends on the channel held in the given variable.
func sendsOn(g *ssa.Go, cell ssa.Value) bool {
	mc, ok := g.Call.Value.(*ssa.MakeClosure)
	if !ok {
		return false
	}
	f := mc.Fn.(*ssa.Function)
	for _, b := range f.Blocks {
		for _, in := range b.Instrs {
			snd, ok := in.(*ssa.Send)
			if !ok {
				continue
			}
			c := chanCell(snd.Chan)
			if fv, ok := c.(*ssa.FreeVar); ok {
				for k, x := range f.FreeVars {
					if x == fv && k < len(mc.Bindings) && mc.Bindings[k] == cell {
						return true
					}
				}
			}
		}
	}
	return false
}

// consumerGoroutine: the spawned function literal receives from a channel, or calls a function whose
// contract is marked `opt run-at-join` (it consumes a channel that has to be complete).
func (fr *frame) consumerGoroutine(c *ssa.CallCommon) bool {
	var f *ssa.Function
	switch x := c.Value.(type) {
	case *ssa.MakeClosure:
		f, _ = x.Fn.(*ssa.Function)
	case *ssa.Function:
		f = x
	}
	if f == nil {
		return false
	}
	for _, b := range f.Blocks {
		for _, in := range b.Instrs {
			if u, ok := in.(*ssa.UnOp); ok && u.Op == token.ARROW {
				return true
			}
			if ci, ok := in.(ssa.CallInstruction); ok {
				if callee := ci.Common().StaticCallee(); callee != nil {
					if ct := fr.fc.e.specs.Funcs[fnKey(callee)]; ct != nil && ct.Opts["run-at-join"] != "" {
						return true
					}
				}
			}
		}
	}
	return false
}


// cellAlloc: the local variable cell a captured variable denotes, followed through the closures that
// pass it on; nil when it is something else.
func cellAlloc(v ssa.Value) *ssa.Alloc {
	for depth := 0; depth < 4; depth++ {
		switch x := v.(type) {
		case *ssa.Alloc:
			return x
		case *ssa.FreeVar:
			fn := x.Parent()
			parent := fn.Parent()
			if parent == nil {
				return nil
			}
			idx := -1
			for k, fv := range fn.FreeVars {
				if fv == x {
					idx = k
				}
			}
			v = nil
			for _, b := range parent.Blocks {
				for _, in := range b.Instrs {
					if mc, ok := in.(*ssa.MakeClosure); ok && mc.Fn == fn && idx >= 0 && idx < len(mc.Bindings) {
						v = mc.Bindings[idx]
					}
				}
			}
			if v == nil {
				return nil
			}
		default:
			return nil
		}
	}
	return nil
}

// ---- lock-guarded maps (`guard T by mu: f g h`) ------------------------------------------------
// A map loaded from a guarded field of an object o - or looked up in such a map - is owned by o:
// every lookup, range and len on it is an obligation "o.mu is held", every update and delete
// "o.mu is write-held". Ownership is followed through the SSA values of one function (field load,
// lookup, comma-ok extract); a map that reaches the code another way carries no obligation.
type guardOwner struct {
	base  Term
	g     *LockGuard
	sT    types.Type
	field string
}

func (fr *frame) noteGuarded(v ssa.Value, pt *PtrField) {
	if pt.StructT == nil || len(fr.fc.e.specs.LockGuards) == 0 {
		return
	}
	g := fr.fc.e.specs.LockGuards[typeKey(pt.StructT)]
	if g == nil || !g.Fields[pt.Name] {
		return
	}
	if fr.mapOwner == nil {
		fr.mapOwner = map[ssa.Value]*guardOwner{}
	}
	fr.mapOwner[v] = &guardOwner{pt.Base, g, pt.StructT, pt.Name}
}

func (fr *frame) inheritGuard(v, from ssa.Value) {
	o := fr.mapOwner[from]
	if o == nil {
		return
	}
	t := v.Type()
	if tp, ok := t.(*types.Tuple); ok && tp.Len() > 0 {
		t = tp.At(0).Type()
	}
	if _, isMap := t.Underlying().(*types.Map); isMap {
		fr.mapOwner[v] = o
	}
}

func (fr *frame) guardCheck(m ssa.Value, write bool, reach string, pos token.Pos) {
	o := fr.mapOwner[m]
	if o == nil {
		return
	}
	fc := fr.fc
	name := "LK$" + sanitize(shortType(o.sT)) + "$" + o.g.Mutex
	a := fc.heapGet(fr.curState, name, arr(SInt, SInt))
	goal, what := fmt.Sprintf("(>= %s 1)", sel(a.S, o.base.S)), "read"
	if write {
		goal, what = eq(sel(a.S, o.base.S), "2"), "write"
	}
	ob := fc.oblig("lock", "guard."+o.field+"."+what, goal, reach, pos, o.g.Props)
	ob.Src = fmt.Sprintf("%s.%s is %s only while %s is held%s (guard %s)", o.g.Type, o.field, map[bool]string{false: "read", true: "written"}[write], o.g.Mutex, map[bool]string{false: "", true: " for writing"}[write], o.g.Src)
}
