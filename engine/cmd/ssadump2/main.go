package main

import (
	"fmt"
	"os"
	"strings"

	"golang.org/x/tools/go/packages"
	"golang.org/x/tools/go/ssa"
	"golang.org/x/tools/go/ssa/ssautil"
)

func main() {
	dir := os.Args[1]
	pat := os.Args[2]
	fn := os.Args[3]
	cfg := &packages.Config{Mode: packages.LoadAllSyntax, Dir: dir, BuildFlags: []string{"-tags=verif"}}
	pkgs, err := packages.Load(cfg, pat)
	if err != nil {
		panic(err)
	}
	prog, spkgs := ssautil.AllPackages(pkgs, ssa.GlobalDebug)
	prog.Build()
	for _, p := range spkgs {
		if p == nil {
			continue
		}
		for f := range ssautil.AllFunctions(prog) {
			if f.Pkg == p && strings.Contains(f.String(), fn) {
				f.WriteTo(os.Stdout)
				fmt.Println()
			}
		}
	}
}
